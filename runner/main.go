package main

import (
	"fmt"
	"os"
)

func verifDir() string {
	if d := os.Getenv("VERIF_DIR"); d != "" {
		return d
	}
	return "/verif"
}

func repoDir() string {
	if d := os.Getenv("VERIF_REPO"); d != "" {
		return d
	}
	return "/repo"
}

func main() {
	if len(os.Args) < 2 {
		fmt.Fprintln(os.Stderr, "usage: runner build <workdir> | check <prop> <tier> | replay <file> | selftest")
		os.Exit(2)
	}
	switch os.Args[1] {
	case "build":
		work := os.Args[2]
		os.MkdirAll(work, 0o755)
		res, err := buildSim(verifDir(), repoDir(), work)
		if err != nil {
			fmt.Fprintln(os.Stderr, err)
			os.Exit(2)
		}
		fmt.Println(res.Binary, "instrumented files:", res.Files)
	default:
		os.Exit(cmdMain(os.Args[1:]))
	}
}
