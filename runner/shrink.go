package main

import (
	"bufio"
	"encoding/json"
	"fmt"
	"io"
	"os"
	"os/exec"
	"path/filepath"
	"sort"
	"strings"
	"time"
)

// server is a long running worker process that executes specs on demand.
type server struct {
	cmd *exec.Cmd
	in  io.WriteCloser
	out *bufio.Reader
}

func startServer(bin string) (*server, error) {
	wa := WorkerArgs{Serve: true}
	raw, _ := json.Marshal(wa)
	cmd := exec.Command(bin, "-test.run", "^TestSim$", "-test.timeout", "6h")
	cmd.Env = append(os.Environ(), "VERIF_WORKER="+string(raw), "GOMAXPROCS=2")
	in, err := cmd.StdinPipe()
	if err != nil {
		return nil, err
	}
	out, err := cmd.StdoutPipe()
	if err != nil {
		return nil, err
	}
	cmd.Stderr = os.Stderr
	if err := cmd.Start(); err != nil {
		return nil, err
	}
	return &server{cmd: cmd, in: in, out: bufio.NewReaderSize(out, 1<<20)}, nil
}

func (s *server) run(spec RunSpec) (*RunResult, error) {
	b, _ := json.Marshal(spec)
	if _, err := s.in.Write(append(b, '\n')); err != nil {
		return nil, err
	}
	for {
		line, err := s.out.ReadString('\n')
		if err != nil {
			return nil, fmt.Errorf("worker died: %v", err)
		}
		if strings.HasPrefix(line, "@@RES ") {
			var r RunResult
			if err := json.Unmarshal([]byte(line[6:]), &r); err != nil {
				return nil, err
			}
			return &r, nil
		}
	}
}

func (s *server) stop() {
	s.in.Close()
	done := make(chan struct{})
	go func() { s.cmd.Wait(); close(done) }()
	select {
	case <-done:
	case <-time.After(5 * time.Second):
		s.cmd.Process.Kill()
	}
}

func hasSig(r *RunResult, v Violation) bool {
	for _, x := range r.Viol {
		if x.Oracle == v.Oracle && x.Sig == v.Sig {
			return true
		}
	}
	return false
}

func cloneTapes(t map[string][]uint32) map[string][]uint32 {
	o := make(map[string][]uint32, len(t))
	for k, v := range t {
		o[k] = append([]uint32(nil), v...)
	}
	return o
}

func tapeWeight(t map[string][]uint32) (n int) {
	for _, v := range t {
		for _, x := range v {
			if x != 0 {
				n++
			}
		}
		n += len(v)
	}
	return n
}

// ReplayFile is what a VIOLATION line points at.
type ReplayFile struct {
	Property  string              `json:"property"`
	Engine    string              `json:"engine"`
	Oracle    string              `json:"oracle"`
	Signature string              `json:"signature"`
	Detail    string              `json:"detail"`
	Seed      uint64              `json:"seed"`
	Index     uint64              `json:"index"`
	Params    map[string]string   `json:"params,omitempty"`
	Budget    int                 `json:"budget"`
	Tapes     map[string][]uint32 `json:"tapes"`
	LogSHA    string              `json:"log_sha256"`
	Steps     int                 `json:"steps"`
	Program   any                 `json:"program"`
	Decisions []Decision          `json:"non_default_decisions"`
	Log       []string            `json:"log"`
	Original  map[string]any      `json:"original"`
	Note      string              `json:"note"`
}

// shrinkAndWrite minimises the failing run, writes the replay file, and replays
// it in a fresh process.
func shrinkAndWrite(bin, verif, work string, base RunSpec, r *RunResult, v Violation, budget int) (string, error) {
	spec := base
	if r.Engine != "" {
		spec.Engine = r.Engine // the run may come from the property's second engine
	}
	spec.Index = r.Index
	spec.Replay = true
	spec.Tapes = cloneTapes(r.Tapes)
	if r.Plan != "" {
		spec.Params = map[string]string{"plan": r.Plan}
	}
	srv, err := startServer(bin)
	if err != nil {
		return "", err
	}
	evals := 0
	try := func(t map[string][]uint32) (*RunResult, bool) {
		if evals >= budget {
			return nil, false
		}
		evals++
		s := spec
		s.Tapes = t
		res, err := srv.run(s)
		if err != nil {
			// restart the server once
			srv.stop()
			srv, _ = startServer(bin)
			return nil, false
		}
		return res, res.Infra == "" && hasSig(res, v)
	}
	// the recorded tapes must reproduce first
	cur := spec.Tapes
	res0, ok := try(cur)
	if !ok {
		srv.stop()
		got := "<none>"
		if res0 != nil {
			got = fmt.Sprintf("viol=%v infra=%s", res0.Viol, res0.Infra)
		}
		return "", fmt.Errorf("recorded run does not replay (index=%d plan=%s sig=%q): %s", r.Index, r.Plan, v.Sig, got)
	}
	best := res0
	cur = res0.Tapes
	if cur == nil {
		cur = map[string][]uint32{}
	}

	streams := func() []string {
		var ks []string
		for k := range cur {
			ks = append(ks, k)
		}
		sort.Slice(ks, func(i, j int) bool {
			rank := func(s string) int {
				switch {
				case s == "faults":
					return 0
				case strings.HasPrefix(s, "rpc"):
					return 1
				case s == "cfg":
					return 2
				case s == "sched":
					return 3
				case s == "net":
					return 4
				}
				return 5
			}
			if rank(ks[i]) != rank(ks[j]) {
				return rank(ks[i]) < rank(ks[j])
			}
			return ks[i] < ks[j]
		})
		return ks
	}
	accept := func(t map[string][]uint32) bool {
		res, ok := try(t)
		if !ok {
			return false
		}
		nt := res.Tapes
		if nt == nil {
			nt = map[string][]uint32{}
		}
		if tapeWeight(nt) > tapeWeight(cur) {
			return false
		}
		cur, best = nt, res
		return true
	}
	for pass := 0; pass < 3 && evals < budget; pass++ {
		before := tapeWeight(cur)
		// whole-stream zeroing for the auxiliary streams
		for _, st := range streams() {
			t := cloneTapes(cur)
			delete(t, st)
			accept(t)
		}
		for _, st := range streams() {
			// truncation (rest = default 0)
			for n := len(cur[st]) / 2; n >= 1 && len(cur[st]) > 0; n /= 2 {
				for len(cur[st]) > n {
					t := cloneTapes(cur)
					t[st] = t[st][:len(t[st])-n]
					if !accept(t) {
						break
					}
				}
			}
			// zero blocks
			for size := len(cur[st]) / 2; size >= 1; size /= 2 {
				for off := 0; off+size <= len(cur[st]); off += size {
					allZero := true
					for _, x := range cur[st][off : off+size] {
						if x != 0 {
							allZero = false
						}
					}
					if allZero {
						continue
					}
					t := cloneTapes(cur)
					for i := off; i < off+size; i++ {
						t[st][i] = 0
					}
					accept(t)
				}
			}
			// delete blocks (program tape: drops ops / rpcs)
			if st == "sched" {
				for size := 8; size >= 1; size /= 2 {
					for off := 0; off+size <= len(cur[st]); {
						t := cloneTapes(cur)
						t[st] = append(t[st][:off:off], t[st][off+size:]...)
						if !accept(t) {
							off += size
						}
					}
				}
			}
			// lower single values
			for i := 0; i < len(cur[st]); i++ {
				if cur[st][i] > 1 {
					t := cloneTapes(cur)
					t[st][i] = 1
					if !accept(t) {
						t = cloneTapes(cur)
						t[st][i] = cur[st][i] / 2
						accept(t)
					}
				}
			}
		}
		if tapeWeight(cur) >= before {
			break
		}
	}
	// final verbose run of the minimised tapes for the log
	fs := spec
	fs.Tapes = cur
	fs.Verbose = true
	final, err := srv.run(fs)
	srv.stop()
	if err != nil || !hasSig(final, v) {
		return "", fmt.Errorf("minimised run lost the violation")
	}
	_ = best
	var fv Violation
	for _, x := range final.Viol {
		if x.Oracle == v.Oracle && x.Sig == v.Sig {
			fv = x
		}
	}
	rf := ReplayFile{Property: v.Prop, Engine: spec.Engine, Oracle: v.Oracle, Signature: v.Sig, Detail: fv.Detail, Seed: spec.Seed, Index: spec.Index,
		Params: spec.Params, Budget: spec.Budget, Tapes: final.Tapes, LogSHA: final.Hash, Steps: final.Steps, Program: final.Desc,
		Decisions: final.Decisions, Log: final.Lines,
		Original: map[string]any{"steps": r.Steps, "tape_entries": tapeWeight(r.Tapes), "minimised_tape_entries": tapeWeight(final.Tapes), "shrink_evaluations": evals},
		Note:     "replay: runner replay <this file> (re-executes the tapes against /repo's current tree in a fresh process; same signature and log_sha256 expected)"}
	if rf.Tapes == nil {
		rf.Tapes = map[string][]uint32{}
	}
	rdir := filepath.Join(verif, "replays")
	if d := os.Getenv("VERIF_REPLAY_DIR"); d != "" {
		rdir = d
	}
	os.MkdirAll(rdir, 0o755)
	name := fmt.Sprintf("%s-%d-%d%s.json", v.Prop, spec.Seed, spec.Index, planSuffix(r.Plan))
	path := filepath.Join(rdir, name)
	b, _ := json.MarshalIndent(rf, "", " ")
	if err := os.WriteFile(path, b, 0o644); err != nil {
		return "", err
	}
	// fresh process replay
	res, err := replayFile(bin, work, path)
	if err != nil {
		return "", err
	}
	if !hasSig(res, v) || res.Hash != rf.LogSHA {
		return "", fmt.Errorf("fresh-process replay of %s does not reproduce (hash %s vs %s, viol=%v)", path, res.Hash, rf.LogSHA, res.Viol)
	}
	return path, nil
}

func planSuffix(p string) string {
	if p == "" {
		return ""
	}
	return "-" + strings.NewReplacer(":", "_", "/", "_").Replace(p)
}

func replayFile(bin, work, path string) (*RunResult, error) {
	b, err := os.ReadFile(path)
	if err != nil {
		return nil, err
	}
	var rf ReplayFile
	if err := json.Unmarshal(b, &rf); err != nil {
		return nil, err
	}
	spec := RunSpec{Engine: rf.Engine, Prop: rf.Property, Seed: rf.Seed, Index: rf.Index, Replay: true, Tapes: rf.Tapes, Params: rf.Params, Budget: rf.Budget, Verbose: true}
	out := filepath.Join(work, fmt.Sprintf("replay-%d.jsonl", time.Now().UnixNano()))
	wa := WorkerArgs{Spec: spec, From: rf.Index, To: rf.Index + 1, Stride: 1, Out: out, Full: true}
	if err := runWorker(bin, wa, 4); err != nil {
		return nil, err
	}
	var res *RunResult
	if err := readResults(out, func(r *RunResult) { res = r }); err != nil {
		return nil, err
	}
	os.Remove(out)
	if res == nil {
		return nil, fmt.Errorf("no result from replay")
	}
	return res, nil
}

func cmdReplay(path string) int {
	work, err := mkWork()
	if err != nil {
		fmt.Fprintln(os.Stderr, err)
		return 2
	}
	defer os.RemoveAll(work)
	bres, err := buildSim(verifDir(), repoDir(), work)
	if err != nil {
		fmt.Fprintln(os.Stderr, "BUILD-ERROR:", err)
		return 2
	}
	b, _ := os.ReadFile(path)
	var rf ReplayFile
	if err := json.Unmarshal(b, &rf); err != nil {
		fmt.Fprintln(os.Stderr, err)
		return 2
	}
	res, err := replayFile(bres.Binary, work, path)
	if err != nil {
		fmt.Fprintln(os.Stderr, "INFRA-ERROR:", err)
		return 2
	}
	if os.Getenv("VERIF_VERBOSE") != "" {
		for _, l := range res.Lines {
			fmt.Println(l)
		}
	}
	v := Violation{Prop: rf.Property, Oracle: rf.Oracle, Sig: rf.Signature}
	if hasSig(res, v) {
		same := "same log"
		if res.Hash != rf.LogSHA {
			same = "DIFFERENT log (tree changed?)"
		}
		fmt.Printf("VIOLATION property=%s replay=%s\n  reproduced: oracle=%s signature=%q (%s)\n", rf.Property, path, rf.Oracle, rf.Signature, same)
		return 1
	}
	fmt.Printf("replay of %s: violation not reproduced on this tree (violations now: %v)\n", path, res.Viol)
	return 0
}

// cmdSelftest: determinism across processes and GOMAXPROCS values.
func cmdSelftest(args []string) int {
	n := envInt("VERIF_SELFTEST_RUNS", 60)
	work, err := mkWork()
	if err != nil {
		fmt.Fprintln(os.Stderr, err)
		return 2
	}
	defer os.RemoveAll(work)
	bres, err := buildSim(verifDir(), repoDir(), work)
	if err != nil {
		fmt.Fprintln(os.Stderr, "BUILD-ERROR:", err)
		return 2
	}
	list := args
	if len(list) == 0 {
		for p := range props {
			list = append(list, p)
		}
		sort.Strings(list)
	}
	bad := 0
	for _, prop := range list {
		cfg := props[prop]
		var ref map[uint64]string
		for rep, gmp := range []int{1, 4, 16, 2, 8, 16} {
			out := filepath.Join(work, fmt.Sprintf("st-%s-%d.jsonl", prop, rep))
			wa := WorkerArgs{Spec: RunSpec{Engine: cfg.Engine, Prop: prop, Seed: 7, Budget: cfg.Budget}, From: 0, To: uint64(n), Stride: 1, Out: out, Enumerate: ""}
			if err := runWorker(bres.Binary, wa, gmp); err != nil {
				fmt.Fprintln(os.Stderr, "INFRA-ERROR:", err)
				return 2
			}
			got := map[uint64]string{}
			readResults(out, func(r *RunResult) { got[r.Index] = r.Hash })
			if ref == nil {
				ref = got
				continue
			}
			for i, h := range ref {
				if got[i] != h {
					fmt.Printf("DETERMINISM MISMATCH prop=%s index=%d rep=%d gomaxprocs=%d\n", prop, i, rep, gmp)
					bad++
				}
			}
		}
		fmt.Printf("selftest %s: %d runs x 6 processes (GOMAXPROCS 1,4,16,2,8,16) identical=%v\n", prop, n, bad == 0)
	}
	if bad > 0 {
		return 2
	}
	return 0
}
