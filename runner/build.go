package main

import (
	"encoding/json"
	"fmt"
	"os"
	"os/exec"
	"path/filepath"
	"strings"
)

const selectAnchor = "j := cheaprandn(uint32(norder + 1))"

const selectPatch = `

// ---- verif overlay: hookable select poll order and goroutine id accessor ----

var verifSelectHook func(goid uint64, n uint32) uint32

//go:linkname verifSetSelectHook
func verifSetSelectHook(f func(goid uint64, n uint32) uint32) { verifSelectHook = f }

//go:linkname verifGoid
func verifGoid() uint64 { return getg().goid }

func verifRandn(n uint32) uint32 {
	if h := verifSelectHook; h != nil && n > 1 {
		if r := h(getg().goid, n); r < n {
			return r
		}
	}
	return cheaprandn(n)
}
`

type buildResult struct {
	Work     string
	Binary   string
	Problems []string
	Files    int
}

func goEnv() []string {
	env := os.Environ()
	env = append(env, "GOFLAGS=-mod=mod", "GOPROXY=off", "GOSUMDB=off", "GOTOOLCHAIN=local", "CGO_ENABLED=0")
	return env
}

func goBin() string {
	if p := os.Getenv("VERIF_GO"); p != "" {
		return p
	}
	return "/opt/veriftools/go1.26.8/bin/go"
}

func goRoot() string { return "/opt/veriftools/go1.26.8" }

// buildSim instruments repo and builds the harness test binary into work.
func buildSim(verifDir, repo, work string) (*buildResult, error) {
	res := &buildResult{Work: work}
	overlay := map[string]string{}

	dirs, err := libraryDirs(repo)
	if err != nil {
		return nil, err
	}
	instrDir := filepath.Join(work, "instr")
	for _, d := range dirs {
		ents, err := os.ReadDir(d)
		if err != nil {
			return nil, err
		}
		rel, _ := filepath.Rel(repo, d)
		for _, e := range ents {
			n := e.Name()
			if e.IsDir() || !strings.HasSuffix(n, ".go") || strings.HasSuffix(n, "_test.go") {
				continue
			}
			src := filepath.Join(d, n)
			base := filepath.ToSlash(filepath.Join(rel, n))
			if rel == "." {
				base = n
			}
			// statement-level scheduling points: always for drpcsignal (C19); for the
			// concurrent core packages too (class ClassStmt is enabled only in a
			// small fraction of runs, otherwise each point is one atomic load)
			stmtMode := rel == "drpcsignal" || rel == "drpcstream" || rel == "drpcmanager" || rel == "drpcwire" || rel == "drpcconn" || rel == "drpcserver" || rel == "drpcpool" || rel == "drpcmigrate" || rel == "drpcctx"
			out, probs, err := instrumentFile(src, base, stmtMode)
			if err != nil {
				return nil, err
			}
			res.Problems = append(res.Problems, probs...)
			if out == nil {
				continue
			}
			dst := filepath.Join(instrDir, rel, n+".txt")
			if err := os.MkdirAll(filepath.Dir(dst), 0o755); err != nil {
				return nil, err
			}
			if err := os.WriteFile(dst, out, 0o644); err != nil {
				return nil, err
			}
			overlay[src] = dst
			res.Files++
		}
	}
	if len(res.Problems) > 0 {
		return res, fmt.Errorf("instrumenter: unsupported constructs:\n  %s", strings.Join(res.Problems, "\n  "))
	}

	// virtual packages
	virt := map[string]string{
		"verifsim/rt.go":              "simrt/verifsim/rt.go",
		"verifsim/simsync/simsync.go": "simrt/simsync/simsync.go",
	}
	// accessor files: simrt/access/<pkg>.go.txt -> /repo/<pkg>/zz_verif_access.go
	accDir := filepath.Join(verifDir, "simrt", "access")
	if ents, err := os.ReadDir(accDir); err == nil {
		for _, e := range ents {
			if !strings.HasSuffix(e.Name(), ".go.txt") {
				continue
			}
			pkg := strings.TrimSuffix(e.Name(), ".go.txt")
			pkg = strings.ReplaceAll(pkg, "__", "/")
			virt[pkg+"/zz_verif_access.go"] = filepath.Join("simrt", "access", e.Name())
		}
	}
	for dst, src := range virt {
		overlay[filepath.Join(repo, dst)] = filepath.Join(verifDir, src)
	}

	// patched runtime/select.go
	selPath := filepath.Join(goRoot(), "src", "runtime", "select.go")
	sel, err := os.ReadFile(selPath)
	if err != nil {
		return nil, err
	}
	if strings.Count(string(sel), selectAnchor) != 1 {
		return nil, fmt.Errorf("runtime/select.go: anchor not found exactly once")
	}
	patched := strings.Replace(string(sel), selectAnchor, "j := verifRandn(uint32(norder + 1))", 1) + selectPatch
	selOut := filepath.Join(work, "select.go.txt")
	if err := os.WriteFile(selOut, []byte(patched), 0o644); err != nil {
		return nil, err
	}
	overlay[selPath] = selOut

	// deterministic map iteration in the simulation binary only: constant hash
	// keys, constant per-map seeds, iteration always starting at offset 0. (The
	// library ranges over maps in drpcmigrate.ListenMux.Run and in the metadata
	// encoder; without this the schedule would depend on Go's per-process map
	// randomisation.)
	type textPatch struct {
		file, old, new string
		count      int
	}
	patches := []textPatch{
		{"src/runtime/alg.go", "hashkey[i] = uintptr(bootstrapRand())", "hashkey[i] = uintptr(0x9e3779b97f4a7c15 + uint64(i)*0x632be59bd9b4e019)", 1},
		{"src/runtime/alg.go", "key[i] = bootstrapRand()", "key[i] = 0x9e3779b97f4a7c15 + uint64(i)*0x632be59bd9b4e019", 1},
		{"src/internal/runtime/maps/map.go", "m.seed = uintptr(rand())", "m.seed = 0x5eed", 4},
		{"src/internal/runtime/maps/table.go", "it.entryOffset = rand()", "it.entryOffset = 0", 1},
		{"src/internal/runtime/maps/table.go", "it.dirOffset = rand()", "it.dirOffset = 0", 1},
	}
	patched2 := map[string]string{}
	for _, tp := range patches {
		full := filepath.Join(goRoot(), tp.file)
		cur, ok := patched2[full]
		if !ok {
			b, err := os.ReadFile(full)
			if err != nil {
				return nil, err
			}
			cur = string(b)
		}
		if strings.Count(cur, tp.old) != tp.count {
			return nil, fmt.Errorf("%s: anchor %q not found exactly %d time(s)", tp.file, tp.old, tp.count)
		}
		patched2[full] = strings.ReplaceAll(cur, tp.old, tp.new)
	}
	for full, txt := range patched2 {
		out := filepath.Join(work, strings.ReplaceAll(strings.TrimPrefix(full, goRoot()+"/"), "/", "_")+".txt")
		if err := os.WriteFile(out, []byte(txt), 0o644); err != nil {
			return nil, err
		}
		overlay[full] = out
	}

	ov, _ := json.MarshalIndent(map[string]any{"Replace": overlay}, "", " ")
	ovPath := filepath.Join(work, "overlay.json")
	if err := os.WriteFile(ovPath, ov, 0o644); err != nil {
		return nil, err
	}

	// go.mod / go.sum for the harness with the replace pointing at repo
	simDir := filepath.Join(verifDir, "sim")
	mod, err := os.ReadFile(filepath.Join(simDir, "go.mod"))
	if err != nil {
		return nil, err
	}
	modS := strings.ReplaceAll(string(mod), "=> /repo", "=> "+repo)
	if err := os.WriteFile(filepath.Join(work, "go.mod"), []byte(modS), 0o644); err != nil {
		return nil, err
	}
	sum, _ := os.ReadFile(filepath.Join(simDir, "go.sum"))
	if err := os.WriteFile(filepath.Join(work, "go.sum"), sum, 0o644); err != nil {
		return nil, err
	}

	res.Binary = filepath.Join(work, "sim.test")
	cmd := exec.Command(goBin(), "test", "-c", "-vet=off", "-modfile="+filepath.Join(work, "go.mod"),
		"-overlay", ovPath, "-o", res.Binary, ".")
	cmd.Dir = simDir
	cmd.Env = goEnv()
	out, err := cmd.CombinedOutput()
	if err != nil {
		return res, fmt.Errorf("build failed: %v\n%s", err, out)
	}
	return res, nil
}
