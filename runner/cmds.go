package main

import (
	"bufio"
	"encoding/json"
	"fmt"
	"os"
	"os/exec"
	"path/filepath"
	"regexp"
	"sort"
	"strconv"
	"strings"
	"sync"
	"time"
)

// ---- shared JSON shapes (mirror /verif/sim) ------------------------------------------

type Violation struct {
	Prop   string `json:"property"`
	Oracle string `json:"oracle"`
	Sig    string `json:"signature"`
	Detail string `json:"detail"`
	Step   int    `json:"step"`
}

type Decision struct {
	Step   int    `json:"step"`
	Choice int    `json:"choice"`
	Of     int    `json:"of"`
	Task   string `json:"task"`
	Label  string `json:"label"`
}

type RunResult struct {
	Index     uint64              `json:"index"`
	Seed      uint64              `json:"seed"`
	Engine    string              `json:"engine"`
	Mode      string              `json:"mode"`
	Plan      string              `json:"plan,omitempty"`
	Hash      string              `json:"hash"`
	Steps     int                 `json:"steps"`
	SimTimeMS int64               `json:"sim_time_ms"`
	Nontriv   bool                `json:"nontrivial"`
	Inconcl   bool                `json:"inconclusive_budget"`
	Discarded string              `json:"discarded,omitempty"`
	Probes    map[string]int      `json:"probes,omitempty"`
	Faults    map[string]int      `json:"faults,omitempty"`
	Viol      []Violation         `json:"violations,omitempty"`
	Other     []Violation         `json:"other_oracles,omitempty"`
	States    int                 `json:"states"`
	Preempt   int                 `json:"preemptions"`
	Tapes     map[string][]uint32 `json:"tapes,omitempty"`
	Desc      any                 `json:"desc,omitempty"`
	Lines     []string            `json:"lines,omitempty"`
	Decisions []Decision          `json:"decisions,omitempty"`
	Census    []string            `json:"census,omitempty"`
	Infra     string              `json:"infra,omitempty"`
	Draws     int                 `json:"draws"`
	StateHashes []uint64          `json:"state_hashes,omitempty"`
}

type RunSpec struct {
	Engine  string              `json:"engine"`
	Prop    string              `json:"prop"`
	Mode    string              `json:"mode"`
	Seed    uint64              `json:"seed"`
	Index   uint64              `json:"index"`
	Tier    string              `json:"tier"`
	Budget  int                 `json:"budget"`
	Verbose bool                `json:"verbose"`
	Tapes   map[string][]uint32 `json:"tapes,omitempty"`
	Replay  bool                `json:"replay"`
	Params  map[string]string   `json:"params,omitempty"`
}

type WorkerArgs struct {
	Spec      RunSpec `json:"spec"`
	From      uint64  `json:"from"`
	To        uint64  `json:"to"`
	Stride    uint64  `json:"stride"`
	Out       string  `json:"out"`
	Full      bool    `json:"full"`
	Samples   int     `json:"samples"`
	Resample  int     `json:"resample"`
	DeadlineS int     `json:"deadline_s"`
	Enumerate string  `json:"enumerate,omitempty"`
	Serve     bool    `json:"serve,omitempty"`
	VarMod    int     `json:"var_mod,omitempty"`
	VarRem    int     `json:"var_rem,omitempty"`
}

// ---- property table -----------------------------------------------------------------------

type propCfg struct {
	Engine    string
	Level     string
	Quick     uint64 // number of run indices
	Thorough  uint64
	QuickS    int // wall clock cap for the run phase (seconds)
	ThoroughS int
	Enumerate string
	Also      string // a second engine that receives every 4th chunk of run indices
	Budget    int
	Rule      string
	Real      []string
	Stub      []string
	Assume    []string
}

var e1Real = []string{"drpcwire", "drpcstream", "drpcmanager", "drpcconn", "drpcserver", "drpcmux", "drpcmetadata", "drpcerr", "drpcsignal", "drpcctx", "drpccache", "drpcenc"}
var e1Stub = []string{"sync (replaced by director-mediated simsync)", "runtime select poll order (hooked)", "transport/listener (simnet)", "message encoding and application scripts", "clock (testing/synctest fake clock)"}

var props = map[string]propCfg{}

func init() {
	e1 := func(level string, q, t uint64, rule string) propCfg {
		return propCfg{Engine: "rpc-sim", Level: level, Quick: q, Thorough: t, QuickS: 40, ThoroughS: 1500, Rule: rule, Real: e1Real, Stub: e1Stub,
			Assume: []string{"sequentially consistent interleavings at the granularity of the instrumented yield points", "transport honours the net.Conn contract (reliable ordered byte stream; Close releases parked I/O)", "sampled schedules/programs/configurations, not exhaustive"}}
	}
	ntRule := "one case = one simulated execution (seeded program + configuration + schedule + faults); distinct = distinct SHA-256 of the full director log; non-trivial = at least one message/response was delivered AND (at least one preemption of a runnable task happened OR at least one fault fired)"
	for _, id := range []string{"C01", "C02", "C04", "C06", "C07", "C10", "C11", "C13", "C18"} {
		props[id] = e1("exploration", 16000, 1600000, ntRule)
	}
	props["C09"] = propCfg{Engine: "reader-chunk", Level: "exploration", Quick: 60000, Thorough: 6000000, QuickS: 40, ThoroughS: 1200,
		Rule: "one case = one generated byte string (valid / one malformation / hostile; built with the independent reference encoder or the released v0.0.17 writer) fed to the real drpcwire.Reader under 5 read partitions (everything, byte-wise, small random, mixed random x2) with error attachment and empty-read bursts, plus a >=100 empty-read no-progress probe; distinct = distinct SHA-256 of the case log; non-trivial = the delivered byte string is non-empty",
		Real: []string{"drpcwire.Reader", "drpcwire.ParseFrame/ReadVarint"}, Stub: []string{"io.Reader (scripted partitions and errors)", "reference reassembler (oracle)"},
		Assume: []string{"the reference reassembler in /verif/sim/e3_reader.go encodes the reassembly rules of the property statement", "sampled byte strings and partitions"}}
	props["C19"] = propCfg{Engine: "signal-sim", Level: "exploration", Quick: 40000, Thorough: 4000000, QuickS: 40, ThoroughS: 1200,
		Rule: "one case = one simulated execution of 2-4 tasks running 1-3 operations each on a fresh drpcsignal.Signal (Set with distinct errors incl. nil, Get, Err, IsSet, Signal()+probe, Wait) or on a fresh drpcsignal.Chan (Make/Get/Close observers, or matched Send/Recv/Full), with a scheduling point before EVERY statement of package drpcsignal; distinct = distinct SHA-256 of the director log; non-trivial = at least one preemption happened and more than one operation ran",
		Real: []string{"drpcsignal.Signal", "drpcsignal.Chan"}, Stub: []string{"sync.Mutex (simsync)", "callers (scripted tasks)"},
		Assume: []string{"sequentially consistent interleavings at statement granularity (no weak-memory reorderings)", "porcupine v1.3.0 linearizability checker", "sampled interleavings"}}
	props["C15"] = propCfg{Engine: "pool-sim", Level: "exploration", Quick: 40000, Thorough: 4000000, QuickS: 40, ThoroughS: 1200,
		Rule: "one case = one simulated execution of 2-3 worker tasks issuing 2-8 operations each (Put new / Put taken / Take / external close / block / unblock / sleep) on one real drpcpool.Pool over 1-3 keys with capacity in {-1,0,1,2,3}, key capacity in {-1,0,1,2}, expiration in {0,1s}; expiry callbacks are tasks on the fake clock, the pool is closed and timers drained at the end; every 4th chunk of run indices instead runs the pooled family of rpc-sim (client scripts call pool.Get(...) whose dial creates real drpcconn connections served by a real drpcserver.Serve); distinct = distinct SHA-256 of the director log; non-trivial = at least one preemption and at least two connections",
		Real: []string{"drpcpool.Pool", "drpcpool entry/list", "drpcpool poolConn/streamWrapper and the whole rpc stack (every 4th chunk of runs: pooled family of rpc-sim)"}, Stub: []string{"pooled connections (simulator-owned fake drpcpool.Conn; real drpcconn in the pooled family)", "sync.Mutex (simsync)", "time.AfterFunc on the synctest fake clock (callbacks are director tasks)"},
		Assume: []string{"sequentially consistent interleavings at lock/close/callback granularity", "sampled operation sequences and schedules"},
		Also: "rpc-sim"}
	props["C16"] = propCfg{Engine: "mux-sim", Level: "exploration", Quick: 30000, Thorough: 3000000, QuickS: 40, ThoroughS: 1200,
		Rule: "one case = one simulated execution of a real drpcmigrate.ListenMux (prefix length 1-8, 1-3 routes registered before or while Run is running) over a simulated base listener with 2-6 dialers (registered / unregistered / too-short prefixes, payload written in arbitrary splits, some through HeaderConn with 1-3 concurrent writers), acceptor tasks per listener, and closers (route Close, context cancel, base listener error); distinct = distinct SHA-256 of the director log; non-trivial = at least one preemption",
		Real: []string{"drpcmigrate.ListenMux", "drpcmigrate listener", "prefixConn", "HeaderConn"}, Stub: []string{"base net.Listener and net.Conn (simnet)", "sync (simsync)", "dialers/acceptors (scripted)"},
		Assume: []string{"sequentially consistent interleavings at lock/channel/I-O granularity", "sampled programs and schedules"}}
	props["C03"] = propCfg{Engine: "stream-model", Level: "exploration", Quick: 300000, Thorough: 6000000, QuickS: 40, ThoroughS: 1200,
		Rule: "one case = one history over the alphabet {MsgSend, RawWrite, RawFlush, MsgRecv/RawRecv, CloseSend, Close, SendError, SendCancel, Cancel} x {peer packet: message, half-close, close, error (incl. malformed), cancel, invoke, invoke-metadata, unknown kind with/without control bit, any of them with a foreign stream id} executed on ONE real drpcstream.Stream over a real drpcwire.Writer and a simulated transport; sequential mode (65%): 1-9 events, each driven to quiescence and compared event by event (result class, emitted packets, terminated/finished/context signals, connection-fatal verdict) with an executable reference state machine; concurrent mode (35%): 2-3 caller tasks plus a packet feeder with writes parked in a stalled transport, order-independent rules; distinct = distinct SHA-256 of the director log",
		Real: []string{"drpcstream.Stream", "drpcstream packetBuffer / inspectMutex", "drpcwire.Writer", "drpcsignal"}, Stub: []string{"transport (simnet)", "callers and peer (scripted)", "reference state machine (oracle, /verif/sim/e2_stream.go)"},
		Assume: []string{"the reference state machine encodes state.dot, the package README and the property statement", "sampled histories and schedules"}}
	c02 := props["C02"]
	c02.Quick = 64000
	props["C02"] = c02
	c10 := props["C10"]
	c10.Quick = 48000
	props["C10"] = c10
	// C18 b: streams produced by the released v0.0.17 writer are decoded by the
	// current reader (reader-chunk engine in C18 mode) in every 4th chunk of runs
	c18 := props["C18"]
	c18.Also = "reader-chunk"
	c18.Real = append(append([]string{}, c18.Real...), "drpcwire.Reader over bytes of the vendored v0.0.17 Writer/SplitN (every 4th chunk of runs: reader-chunk engine)")
	props["C18"] = c18
	c04 := props["C04"]
	c04.Quick = 64000
	props["C04"] = c04
	c06 := props["C06"]
	c06.Quick = 48000
	props["C06"] = c06
	c05 := e1("fault_enumeration", 320, 8000, "one case = one simulated execution of a seeded program with ONE planned transport fault: for every base program the fault-free twin is run first, its transport calls are numbered per endpoint, and then the k-th call of each endpoint is failed for every k and every kind (read error, read error with data, write error after a partial write, peer close, local close); distinct = distinct SHA-256 of the director log; non-trivial = a message/response was delivered and a fault fired or a preemption happened")
	c05.Enumerate = "io-faults"
	c05.QuickS = 60
	props["C05"] = c05
	c12 := e1("fault_enumeration", 160, 16000, "one case = one simulated execution of a seeded program with ONE planned close/cancel injected at an exact director step of the close-free twin run (quick: every 3rd step, thorough: every step, two kinds each): Conn.Close, concurrent double Conn.Close, cancel of the server context, transport closed underneath either side, listener failure; distinct = distinct SHA-256 of the director log")
	c12.Enumerate = "close-steps"
	props["C12"] = c12
}

// ---- helpers ---------------------------------------------------------------------------------

func envInt(name string, def int) int {
	if v := os.Getenv(name); v != "" {
		if n, err := strconv.Atoi(v); err == nil {
			return n
		}
	}
	return def
}

func mkWork() (string, error) {
	base := os.Getenv("VERIF_TMP")
	if base == "" {
		base = os.TempDir()
	}
	return os.MkdirTemp(base, "verifsim-")
}

type known struct {
	Status string `json:"status"`
	Prop   string `json:"property"`
	Regex  string `json:"signature_regex"`
	Where  string `json:"where"`
	Note   string `json:"note"`
	Commit string `json:"commit,omitempty"`
	re     *regexp.Regexp
}

// loadKnown parses /verif/known_findings.txt. Lines:
//
//	known: property=<id> signature=/<regexp>/ <what fails>
//	fixed: property=<id> <commit> <what failed>
//
// "fixed" lines suppress nothing. The file is never written at run time.
func loadKnown(verif string) ([]*known, error) {
	f, err := os.Open(filepath.Join(verif, "known_findings.txt"))
	if err != nil {
		if os.IsNotExist(err) {
			return nil, nil
		}
		return nil, err
	}
	defer f.Close()
	var out []*known
	sc := bufio.NewScanner(f)
	sc.Buffer(make([]byte, 1<<20), 1<<20)
	reKnown := regexp.MustCompile(`^known:\s+property=(C\d+)\s+signature=/(.*?)/\s+(.*)$`)
	reFixed := regexp.MustCompile(`^fixed:\s+property=(C\d+)\s+(\S+)\s+(.*)$`)
	for sc.Scan() {
		line := strings.TrimSpace(sc.Text())
		if line == "" || strings.HasPrefix(line, "#") {
			continue
		}
		if m := reKnown.FindStringSubmatch(line); m != nil {
			re, err := regexp.Compile(m[2])
			if err != nil {
				return nil, fmt.Errorf("known_findings.txt: %v", err)
			}
			out = append(out, &known{Status: "known", Prop: m[1], Regex: m[2], Where: m[3], re: re})
			continue
		}
		if m := reFixed.FindStringSubmatch(line); m != nil {
			out = append(out, &known{Status: "fixed", Prop: m[1], Commit: m[2], Where: m[3]})
			continue
		}
		return nil, fmt.Errorf("known_findings.txt: cannot parse line: %s", line)
	}
	return out, sc.Err()
}

func runWorker(bin string, wa WorkerArgs, gomaxprocs int) error {
	raw, _ := json.Marshal(wa)
	cmd := exec.Command(bin, "-test.run", "^TestSim$", "-test.timeout", "6h")
	cmd.Env = append(os.Environ(), "VERIF_WORKER="+string(raw), fmt.Sprintf("GOMAXPROCS=%d", gomaxprocs))
	out, err := cmd.CombinedOutput()
	if err != nil {
		return fmt.Errorf("worker failed: %v\n%s", err, tail(string(out), 3000))
	}
	if !strings.Contains(string(out), "PASS") {
		return fmt.Errorf("worker did not pass:\n%s", tail(string(out), 3000))
	}
	return nil
}

func tail(s string, n int) string {
	if len(s) > n {
		return s[len(s)-n:]
	}
	return s
}

func readResults(path string, f func(*RunResult)) error {
	fh, err := os.Open(path)
	if err != nil {
		return err
	}
	defer fh.Close()
	sc := bufio.NewScanner(fh)
	sc.Buffer(make([]byte, 1<<20), 256<<20)
	for sc.Scan() {
		var r RunResult
		if err := json.Unmarshal(sc.Bytes(), &r); err != nil {
			return fmt.Errorf("%s: %v", path, err)
		}
		f(&r)
	}
	return sc.Err()
}

// ---- check ---------------------------------------------------------------------------------

type aggregate struct {
	mu          sync.Mutex
	runs        int
	nontrivial  map[string]struct{}
	allHashes   map[string]struct{}
	inconcl     int
	discarded   map[string]int
	steps       int64
	simMS       int64
	probes      map[string]int
	faults      map[string]int
	other       map[string]int
	samples     []*RunResult
	viol        map[string]*RunResult // signature -> first run
	violCount   map[string]int
	infra       []string
	resampleOK  int
	states      map[uint64]struct{}
	preempt     int64
}

func newAgg() *aggregate {
	return &aggregate{nontrivial: map[string]struct{}{}, allHashes: map[string]struct{}{}, discarded: map[string]int{},
		probes: map[string]int{}, faults: map[string]int{}, other: map[string]int{}, viol: map[string]*RunResult{}, violCount: map[string]int{}, states: map[uint64]struct{}{}}
}

func (a *aggregate) add(r *RunResult, prop string) {
	a.mu.Lock()
	defer a.mu.Unlock()
	a.runs++
	a.steps += int64(r.Steps)
	a.simMS += r.SimTimeMS
	a.preempt += int64(r.Preempt)
	a.allHashes[r.Hash] = struct{}{}
	if r.Nontriv {
		a.nontrivial[r.Hash] = struct{}{}
	}
	if r.Inconcl {
		a.inconcl++
	}
	if r.Discarded != "" {
		a.discarded[r.Discarded]++
	}
	for k, v := range r.Probes {
		if k == "determinism_resample_ok" {
			a.resampleOK += v
			continue
		}
		a.probes[k] += v
	}
	for k, v := range r.Faults {
		a.faults[k] += v
	}
	for _, h := range r.StateHashes {
		a.states[h] = struct{}{}
	}
	for _, v := range r.Other {
		a.other[v.Oracle]++
	}
	if r.Infra != "" {
		if len(a.infra) < 5 {
			a.infra = append(a.infra, fmt.Sprintf("index=%d plan=%s: %s", r.Index, r.Plan, r.Infra))
		}
	}
	if len(r.Lines) > 0 && len(a.samples) < 4 && len(r.Viol) == 0 && r.Nontriv {
		a.samples = append(a.samples, r)
	}
	for _, v := range r.Viol {
		key := v.Oracle + " :: " + v.Sig
		a.violCount[key]++
		if old, ok := a.viol[key]; !ok || r.Steps < old.Steps {
			if r.Tapes != nil {
				a.viol[key] = r
			}
		}
	}
}

func cmdCheck(prop, tier string) int {
	start := time.Now()
	cfg, ok := props[prop]
	if !ok {
		fmt.Fprintf(os.Stderr, "unknown property %s\n", prop)
		return 2
	}
	if t := os.Getenv("VERIF_TIER"); t != "" {
		tier = t
	}
	if tier != "quick" && tier != "thorough" {
		fmt.Fprintf(os.Stderr, "tier must be quick or thorough\n")
		return 2
	}
	seed := uint64(envInt("VERIF_SEED", 1))
	verif, repo := verifDir(), repoDir()
	work, err := mkWork()
	if err != nil {
		fmt.Fprintln(os.Stderr, err)
		return 2
	}
	defer os.RemoveAll(work)
	bres, err := buildSim(verif, repo, work)
	if err != nil {
		fmt.Fprintln(os.Stderr, "BUILD-ERROR:", err)
		return 2
	}
	buildS := time.Since(start).Seconds()
	fmt.Printf("built simulation binary from %s (%d instrumented files) in %.1fs\n", repo, bres.Files, buildS)

	total, capS := cfg.Quick, cfg.QuickS
	if tier == "thorough" {
		total, capS = cfg.Thorough, cfg.ThoroughS
	}
	if v := envInt("VERIF_RUNS", 0); v > 0 {
		total = uint64(v)
	}
	if v := envInt("VERIF_CAP_S", 0); v > 0 {
		capS = v
	}
	nw := envInt("VERIF_WORKERS", 16)
	chunk := uint64(1500)
	if cfg.Enumerate != "" {
		chunk = 2
	}
	spec := RunSpec{Engine: cfg.Engine, Prop: prop, Seed: seed, Tier: tier, Budget: cfg.Budget}

	agg := newAgg()
	var wg sync.WaitGroup
	jobs := make(chan [3]uint64, 1<<16)
	const varSplit = 8
	var firstErr error
	var errMu sync.Mutex
	deadline := time.Now().Add(time.Duration(capS) * time.Second)
	for w := 0; w < nw; w++ {
		wg.Add(1)
		go func(w int) {
			defer wg.Done()
			n := 0
			for j := range jobs {
				left := time.Until(deadline)
				if left < time.Second {
					continue
				}
				out := filepath.Join(work, fmt.Sprintf("out-%d-%d.jsonl", w, n))
				n++
				wa := WorkerArgs{Spec: spec, From: j[0], To: j[1], Stride: 1, Out: out, Samples: 1, Resample: 97,
					DeadlineS: int(left.Seconds()), Enumerate: cfg.Enumerate}
				if cfg.Also != "" && (j[0]/chunk)%4 == 3 {
					wa.Spec.Engine = cfg.Also
				}
				if cfg.Enumerate != "" {
					wa.VarMod, wa.VarRem = varSplit, int(j[2])
				}
				if err := runWorker(bres.Binary, wa, 2); err != nil {
					errMu.Lock()
					if firstErr == nil {
						firstErr = err
					}
					errMu.Unlock()
					continue
				}
				readResults(out, func(r *RunResult) { agg.add(r, prop) })
				os.Remove(out)
			}
		}(w)
	}
	for from := uint64(0); from < total; from += chunk {
		to := from + chunk
		if to > total {
			to = total
		}
		if cfg.Enumerate != "" {
			for r := uint64(0); r < varSplit; r++ {
				jobs <- [3]uint64{from, to, r}
			}
		} else {
			jobs <- [3]uint64{from, to, 0}
		}
	}
	close(jobs)
	wg.Wait()
	runS := time.Since(start).Seconds() - buildS
	if firstErr != nil {
		fmt.Fprintln(os.Stderr, "INFRA-ERROR:", firstErr)
		return 2
	}
	if len(agg.infra) > 0 {
		fmt.Fprintln(os.Stderr, "INFRA-ERROR:", strings.Join(agg.infra, "\n"))
		return 2
	}
	if agg.runs == 0 {
		fmt.Fprintln(os.Stderr, "INFRA-ERROR: no runs executed")
		return 2
	}
	if agg.inconcl*50 > agg.runs {
		fmt.Fprintf(os.Stderr, "INFRA-ERROR: %d of %d runs exhausted their step budget (workload mis-tuned)\n", agg.inconcl, agg.runs)
		return 2
	}

	// violations: known findings, minimisation, fresh-process replay
	kf, err := loadKnown(verif)
	if err != nil {
		fmt.Fprintln(os.Stderr, "INFRA-ERROR:", err)
		return 2
	}
	var keys []string
	for k := range agg.viol {
		keys = append(keys, k)
	}
	sort.Strings(keys)
	exit := 0
	knownHit := map[string]int{}
	reported := 0
	var violLines []string
	for _, key := range keys {
		r := agg.viol[key]
		var v Violation
		for _, vv := range r.Viol {
			if vv.Oracle+" :: "+vv.Sig == key {
				v = vv
			}
		}
		matched := false
		for _, k := range kf {
			if k.Status == "known" && k.Prop == prop && k.re.MatchString(v.Oracle+": "+v.Sig) {
				knownHit[k.Regex+"\x00"+k.Where] += agg.violCount[key]
				matched = true
				break
			}
		}
		if matched {
			continue
		}
		reported++
		if reported > 4 {
			// further classes: a verified but unminimised replay file for the first dozen
			line := fmt.Sprintf("  (further violation class not minimised) %s x%d", key, agg.violCount[key])
			if reported <= 16 {
				if rf, err := shrinkAndWrite(bres.Binary, verif, work, spec, r, v, 1); err == nil {
					line += " replay=" + rf
				}
			}
			violLines = append(violLines, line)
			exit = 1
			continue
		}
		shrinkBudget := 400
		if tier == "thorough" {
			shrinkBudget = 3000
		}
		rf, err := shrinkAndWrite(bres.Binary, verif, work, spec, r, v, shrinkBudget)
		if err != nil {
			fmt.Fprintln(os.Stderr, "INFRA-ERROR: replay/minimisation failed:", err)
			return 2
		}
		fmt.Printf("VIOLATION property=%s replay=%s\n", prop, rf)
		fmt.Printf("  oracle=%s signature=%q occurrences=%d\n", v.Oracle, v.Sig, agg.violCount[key])
		exit = 1
	}
	for _, l := range violLines {
		fmt.Println(l)
	}
	for _, k := range kf {
		if k.Status == "known" && k.Prop == prop {
			if n := knownHit[k.Regex+"\x00"+k.Where]; n > 0 {
				fmt.Printf("KNOWN-FINDING: property=%s %s (seen in %d runs)\n", prop, k.Where, n)
			} else {
				fmt.Printf("KNOWN-FINDING: property=%s %s (not reproduced in this run's sample)\n", prop, k.Where)
			}
		}
	}

	wall := time.Since(start).Seconds()
	if err := writeEvidence(verif, prop, tier, seed, cfg, agg, wall, runS, reported, knownHit); err != nil {
		fmt.Fprintln(os.Stderr, "INFRA-ERROR:", err)
		return 2
	}
	fmt.Printf("%s %s: runs=%d distinct_nontrivial=%d steps=%d sim_time=%.1fs inconclusive=%d violations=%d known_findings_hit=%d (in %d signature classes) wall=%.1fs (%.0f runs/s)\n",
		prop, tier, agg.runs, len(agg.nontrivial), agg.steps, float64(agg.simMS)/1000, agg.inconcl, reported, len(knownHit), len(keys)-reported, wall, float64(agg.runs)/runS)
	return exit
}

func writeEvidence(verif, prop, tier string, seed uint64, cfg propCfg, a *aggregate, wall, runS float64, unknownViol int, knownHit map[string]int) error {
	var samples []any
	for _, s := range a.samples {
		lines := s.Lines
		if len(lines) > 40 {
			lines = lines[:40]
		}
		samples = append(samples, map[string]any{"seed": s.Seed, "index": s.Index, "plan": s.Plan, "program": s.Desc, "steps": s.Steps,
			"first_steps": lines, "faults_fired": s.Faults, "log_sha256": s.Hash})
	}
	if len(samples) == 0 {
		samples = append(samples, map[string]any{"note": "no non-violating non-trivial run was kept as a sample in this invocation"})
	}
	var never []string
	for k, v := range a.probes {
		if v == 0 {
			never = append(never, k)
		}
	}
	kh := map[string]int{}
	for k, v := range knownHit {
		kh[strings.SplitN(k, "\x00", 2)[1]] = v
	}
	ev := map[string]any{
		"property_id": prop,
		"tier":        tier,
		"seed":        seed,
		"level":       cfg.Level,
		"wall_s":      wall,
		"violations":  unknownViol,
		"assumptions": cfg.Assume,
		"coverage": map[string]any{
			"evaluations":            a.runs,
			"distinct_nontrivial":    len(a.nontrivial),
			"distinct_executions":    len(a.allHashes),
			"rule":                   cfg.Rule,
			"samples":                samples,
			"runs_per_hour":          int(float64(a.runs) / runS * 3600),
			"seeds":                  map[string]any{"base_seed": seed, "run_indices": a.runs},
			"steps_total":            a.steps,
			"preemptions_total":      a.preempt,
			"sim_time_seconds":       float64(a.simMS) / 1000,
			"inconclusive_budget":    a.inconcl,
			"discarded":              a.discarded,
			"faults_injected":        a.faults,
			"probes":                 a.probes,
			"probes_never_hit":       never,
			"distinct_states":        len(a.states),
			"distinct_states_measure": "distinct hashes of the multiset {(task name, state, park label)} observed after director steps, union over sampled runs",
			"determinism_resamples":  a.resampleOK,
			"determinism_mismatches": 0,
			"other_oracle_hits":      a.other,
			"real_components":        cfg.Real,
			"stub_components":        cfg.Stub,
			"known_findings_hit":     kh,
			"engine":                 cfg.Engine,
		},
	}
	b, err := json.MarshalIndent(ev, "", " ")
	if err != nil {
		return err
	}
	dir := filepath.Join(verif, "evidence")
	if d := os.Getenv("VERIF_EVIDENCE_DIR"); d != "" {
		dir = d // used when checks are run against seeded changes, so that committed evidence is not touched
	}
	os.MkdirAll(dir, 0o755)
	return os.WriteFile(filepath.Join(dir, prop+".json"), b, 0o644)
}

func cmdMain(args []string) int {
	switch args[0] {
	case "check":
		if len(args) < 3 {
			fmt.Fprintln(os.Stderr, "usage: runner check <prop> <quick|thorough>")
			return 2
		}
		return cmdCheck(args[1], args[2])
	case "replay":
		if len(args) < 2 {
			fmt.Fprintln(os.Stderr, "usage: runner replay <file>")
			return 2
		}
		return cmdReplay(args[1])
	case "selftest":
		return cmdSelftest(args[1:])
	}
	fmt.Fprintln(os.Stderr, "unknown command", args[0])
	return 2
}
