package main

// The instrumenter: a purely syntactic, line-preserving rewrite of the drpc
// library sources, emitted as overlay files. See DESIGN.md §3.3.
//
//   import "sync"                  -> import sync "storj.io/drpc/verifsim/simsync"
//   go f(x)                        -> verifsim.Go("site", func(){ f(x) })   (f, x evaluated first)
//   stmt containing <-ch / ch<-v   -> verifsim.Mark("site"); stmt; verifsim.Yield(ClassWake,"site")
//   select { case ...: body }      -> verifsim.Mark("site"); select { case ...: verifsim.Yield(ClassWake,"site"); body }
//   time.AfterFunc(d, f)           -> time.AfterFunc(d, verifsim.Wrap("site", f))
//   every statement of drpcsignal  -> verifsim.Yield(ClassStmt,"site"); stmt
//
// All edits are text insertions/replacements on the same source line, so line
// numbers in panics and censuses are those of /repo.

import (
	"fmt"
	"go/ast"
	"go/parser"
	"go/token"
	"os"
	"path/filepath"
	"sort"
	"strings"
)

type edit struct {
	start, end int // byte offsets; start==end => insertion
	text       string
	seq        int
}

type fileInstr struct {
	fset     *token.FileSet
	file     *ast.File
	src      []byte
	base     string // short file name for sites, e.g. "drpcstream/stream.go"
	edits    []edit
	needImp  bool
	timeUsed bool
	curFunc  string
	stmtMode bool
	problems []string
}

func (fi *fileInstr) off(p token.Pos) int { return fi.fset.Position(p).Offset }

func (fi *fileInstr) site(p token.Pos) string {
	return fmt.Sprintf("%s:%d(%s)", fi.base, fi.fset.Position(p).Line, fi.curFunc)
}

func (fi *fileInstr) insert(at int, text string) {
	fi.edits = append(fi.edits, edit{at, at, text, len(fi.edits)})
}

func (fi *fileInstr) replace(start, end int, text string) {
	fi.edits = append(fi.edits, edit{start, end, text, len(fi.edits)})
}

// hasChanOp reports whether the expression tree n (not descending into
// function literals) contains a receive expression.
func hasChanOp(n ast.Node) bool {
	if n == nil {
		return false
	}
	found := false
	ast.Inspect(n, func(x ast.Node) bool {
		if found {
			return false
		}
		switch v := x.(type) {
		case *ast.FuncLit:
			return false
		case *ast.UnaryExpr:
			if v.Op == token.ARROW {
				found = true
				return false
			}
		}
		return true
	})
	return found
}

func (fi *fileInstr) yieldWake(p token.Pos) string {
	fi.needImp = true
	return fmt.Sprintf("verifsim.Yield(verifsim.ClassWake, %q)", fi.site(p))
}

func (fi *fileInstr) mark(p token.Pos) string {
	fi.needImp = true
	return fmt.Sprintf("verifsim.Mark(%q)", fi.site(p))
}

// stmtList instruments one statement list.
func (fi *fileInstr) stmtList(list []ast.Stmt) {
	for _, st := range list {
		fi.stmt(st, true)
	}
}

func (fi *fileInstr) blockStartYield(b *ast.BlockStmt, p token.Pos) {
	if b == nil {
		return
	}
	fi.insert(fi.off(b.Lbrace)+1, " "+fi.yieldWake(p)+";")
}

// stmt handles one statement that sits in a statement list (inList) or is the
// body of a labeled statement.
func (fi *fileInstr) stmt(st ast.Stmt, inList bool) {
	if st == nil {
		return
	}
	if fi.stmtMode && inList {
		if _, isLabel := st.(*ast.LabeledStmt); true {
			_ = isLabel
			fi.needImp = true
			fi.insert(fi.off(st.Pos()), fmt.Sprintf("verifsim.Yield(verifsim.ClassStmt, %q); ", fi.site(st.Pos())))
		}
	}
	switch s := st.(type) {
	case *ast.LabeledStmt:
		// the yield of a chan op in the labeled statement is handled by
		// treating the inner statement as a list element without stmt-mode
		// duplication.
		fi.stmt(s.Stmt, false)
		return
	case *ast.GoStmt:
		fi.goStmt(s)
		return
	case *ast.SelectStmt:
		fi.insert(fi.off(s.Pos()), fi.mark(s.Pos())+"; ")
		for _, c := range s.Body.List {
			cc := c.(*ast.CommClause)
			fi.insert(fi.off(cc.Colon)+1, " "+fi.yieldWake(s.Pos())+";")
			fi.exprFuncLits(cc.Comm)
			fi.stmtList(cc.Body)
		}
		return
	case *ast.SendStmt:
		fi.insert(fi.off(s.Pos()), fi.mark(s.Pos())+"; ")
		fi.insert(fi.off(s.End()), "; "+fi.yieldWake(s.Pos()))
		fi.exprFuncLits(s)
		return
	case *ast.ExprStmt, *ast.AssignStmt, *ast.DeclStmt, *ast.IncDecStmt, *ast.DeferStmt:
		if hasChanOp(s) {
			if _, isDefer := s.(*ast.DeferStmt); isDefer {
				fi.problems = append(fi.problems, fi.site(s.Pos())+": receive in defer arguments")
			}
			fi.insert(fi.off(s.Pos()), fi.mark(s.Pos())+"; ")
			fi.insert(fi.off(s.End()), "; "+fi.yieldWake(s.Pos()))
		}
		fi.exprFuncLits(s)
		return
	case *ast.ReturnStmt:
		if hasChanOp(s) {
			fi.problems = append(fi.problems, fi.site(s.Pos())+": receive inside return statement")
		}
		fi.exprFuncLits(s)
		return
	case *ast.BlockStmt:
		fi.stmtList(s.List)
		return
	case *ast.IfStmt:
		hdr := hasChanOp(s.Init) || hasChanOp(s.Cond)
		if hdr {
			fi.insert(fi.off(s.Pos()), fi.mark(s.Pos())+"; ")
			fi.blockStartYield(s.Body, s.Pos())
			if s.Else == nil {
				fi.insert(fi.off(s.End()), "; "+fi.yieldWake(s.Pos()))
			}
		}
		fi.exprFuncLits(s.Init)
		fi.exprFuncLits(s.Cond)
		fi.stmtList(s.Body.List)
		switch e := s.Else.(type) {
		case *ast.BlockStmt:
			if hdr {
				fi.blockStartYield(e, s.Pos())
			}
			fi.stmtList(e.List)
		case *ast.IfStmt:
			if hdr {
				fi.problems = append(fi.problems, fi.site(s.Pos())+": receive in if header with else-if chain")
			}
			fi.stmt(e, false)
		}
		return
	case *ast.ForStmt:
		if hasChanOp(s.Init) || hasChanOp(s.Cond) || hasChanOp(s.Post) {
			fi.insert(fi.off(s.Pos()), fi.mark(s.Pos())+"; ")
			fi.blockStartYield(s.Body, s.Pos())
			fi.insert(fi.off(s.End()), "; "+fi.yieldWake(s.Pos()))
		}
		fi.exprFuncLits(s.Init)
		fi.exprFuncLits(s.Cond)
		fi.exprFuncLits(s.Post)
		fi.stmtList(s.Body.List)
		return
	case *ast.RangeStmt:
		// ranging over a channel blocks; we cannot know the type
		// syntactically, so always treat a receive in X, and add a wake
		// yield at the top of the body only if X looks like a channel
		// receive. Range over a plain channel value is flagged.
		if hasChanOp(s.X) {
			fi.insert(fi.off(s.Pos()), fi.mark(s.Pos())+"; ")
			fi.blockStartYield(s.Body, s.Pos())
		}
		fi.exprFuncLits(s.X)
		fi.stmtList(s.Body.List)
		return
	case *ast.SwitchStmt:
		if hasChanOp(s.Init) || hasChanOp(s.Tag) {
			fi.insert(fi.off(s.Pos()), fi.mark(s.Pos())+"; ")
			for _, c := range s.Body.List {
				cc := c.(*ast.CaseClause)
				fi.insert(fi.off(cc.Colon)+1, " "+fi.yieldWake(s.Pos())+";")
			}
		}
		fi.exprFuncLits(s.Init)
		fi.exprFuncLits(s.Tag)
		for _, c := range s.Body.List {
			cc := c.(*ast.CaseClause)
			for _, e := range cc.List {
				if hasChanOp(e) {
					fi.problems = append(fi.problems, fi.site(e.Pos())+": receive in case expression")
				}
				fi.exprFuncLits(e)
			}
			fi.stmtList(cc.Body)
		}
		return
	case *ast.TypeSwitchStmt:
		if hasChanOp(s.Init) || hasChanOp(s.Assign) {
			fi.insert(fi.off(s.Pos()), fi.mark(s.Pos())+"; ")
			for _, c := range s.Body.List {
				cc := c.(*ast.CaseClause)
				fi.insert(fi.off(cc.Colon)+1, " "+fi.yieldWake(s.Pos())+";")
			}
		}
		fi.exprFuncLits(s.Init)
		fi.exprFuncLits(s.Assign)
		for _, c := range s.Body.List {
			fi.stmtList(c.(*ast.CaseClause).Body)
		}
		return
	default:
		// branch, empty, etc.
		return
	}
}

// exprFuncLits instruments the bodies of function literals and rewrites
// time.AfterFunc calls found in the expression tree n.
func (fi *fileInstr) exprFuncLits(n ast.Node) {
	if n == nil {
		return
	}
	ast.Inspect(n, func(x ast.Node) bool {
		switch v := x.(type) {
		case *ast.FuncLit:
			fi.stmtList(v.Body.List)
			return false
		case *ast.CallExpr:
			fi.afterFunc(v)
		}
		return true
	})
}

func (fi *fileInstr) afterFunc(c *ast.CallExpr) {
	sel, ok := c.Fun.(*ast.SelectorExpr)
	if !ok {
		return
	}
	if id, ok := sel.X.(*ast.Ident); !ok || id.Name != "time" {
		return
	}
	switch sel.Sel.Name {
	case "AfterFunc", "Sleep", "NewTimer", "After":
		fi.timeUsed = true
	}
	switch sel.Sel.Name {
	case "AfterFunc":
		if len(c.Args) != 2 {
			return
		}
		fi.needImp = true
		fi.replace(fi.off(sel.Pos()), fi.off(c.Lparen)+1, fmt.Sprintf("verifsim.AfterFunc(%q, ", fi.site(c.Pos())))
	case "Sleep":
		fi.needImp = true
		fi.replace(fi.off(sel.Pos()), fi.off(c.Lparen)+1, fmt.Sprintf("verifsim.Sleep(%q, ", fi.site(c.Pos())))
	case "NewTimer", "After":
		fi.needImp = true
		fi.replace(fi.off(sel.Pos()), fi.off(sel.End()), "verifsim."+sel.Sel.Name)
	}
}

func (fi *fileInstr) text(n ast.Node) string {
	return string(fi.src[fi.off(n.Pos()):fi.off(n.End())])
}

// goSite names a spawned goroutine after the function it runs.
func (fi *fileInstr) goSite(g *ast.GoStmt) string {
	switch f := g.Call.Fun.(type) {
	case *ast.SelectorExpr:
		return f.Sel.Name
	case *ast.Ident:
		return f.Name
	}
	return "func@" + fi.curFunc
}

func (fi *fileInstr) goStmt(g *ast.GoStmt) {
	fi.needImp = true
	call := g.Call
	var pre []string
	var args []string
	for i, a := range call.Args {
		if _, lit := a.(*ast.BasicLit); lit {
			args = append(args, fi.text(a))
			continue
		}
		if hasChanOp(a) {
			fi.problems = append(fi.problems, fi.site(a.Pos())+": receive in go statement arguments")
		}
		v := fmt.Sprintf("va%d", i)
		pre = append(pre, v+" := "+fi.text(a))
		args = append(args, v)
	}
	ell := ""
	if call.Ellipsis.IsValid() {
		ell = "..."
	}
	if fl, ok := call.Fun.(*ast.FuncLit); ok {
		// keep the literal's text in place (so that edits inside it apply)
		// and wrap it piecewise.
		head := "{ "
		if len(pre) > 0 {
			head += strings.Join(pre, "; ") + "; "
		}
		head += fmt.Sprintf("verifsim.Go(%q, func() { ", fi.goSite(g))
		fi.replace(fi.off(g.Pos()), fi.off(fl.Pos()), head)
		fi.replace(fi.off(fl.End()), fi.off(g.End()), fmt.Sprintf("(%s%s) }) }", strings.Join(args, ", "), ell))
		fi.stmtList(fl.Body.List)
		return
	}
	pre = append([]string{"vfn := " + fi.text(call.Fun)}, pre...)
	txt := fmt.Sprintf("{ %s; verifsim.Go(%q, func() { vfn(%s%s) }) }",
		strings.Join(pre, "; "), fi.goSite(g), strings.Join(args, ", "), ell)
	fi.replace(fi.off(g.Pos()), fi.off(g.End()), txt)
}

// instrumentFile returns the rewritten source, or nil if nothing changed.
func instrumentFile(path, base string, stmtMode bool) ([]byte, []string, error) {
	src, err := os.ReadFile(path)
	if err != nil {
		return nil, nil, err
	}
	fset := token.NewFileSet()
	f, err := parser.ParseFile(fset, path, src, parser.ParseComments|parser.SkipObjectResolution)
	if err != nil {
		return nil, nil, err
	}
	fi := &fileInstr{fset: fset, file: f, src: src, base: base, stmtMode: stmtMode}

	for _, imp := range f.Imports {
		if imp.Path.Value == `"sync"` {
			if imp.Name == nil {
				fi.replace(fi.off(imp.Path.Pos()), fi.off(imp.Path.End()), `sync "storj.io/drpc/verifsim/simsync"`)
			} else {
				fi.replace(fi.off(imp.Path.Pos()), fi.off(imp.Path.End()), `"storj.io/drpc/verifsim/simsync"`)
			}
		}
	}
	for _, d := range f.Decls {
		switch fd := d.(type) {
		case *ast.FuncDecl:
			if fd.Body != nil {
				fi.curFunc = fd.Name.Name
				fi.stmtList(fd.Body.List)
				fi.curFunc = ""
			}
		case *ast.GenDecl:
			fi.exprFuncLits(fd)
		}
	}
	if len(fi.edits) == 0 {
		return nil, fi.problems, nil
	}
	if fi.needImp {
		fi.insert(fi.off(f.Name.End()), `; import verifsim "storj.io/drpc/verifsim"`)
	}
	sort.SliceStable(fi.edits, func(i, j int) bool {
		if fi.edits[i].start != fi.edits[j].start {
			return fi.edits[i].start < fi.edits[j].start
		}
		return fi.edits[i].seq < fi.edits[j].seq
	})
	var out []byte
	pos := 0
	for _, e := range fi.edits {
		if e.start < pos {
			return nil, nil, fmt.Errorf("%s: overlapping edits at offset %d", path, e.start)
		}
		out = append(out, src[pos:e.start]...)
		out = append(out, e.text...)
		pos = e.end
	}
	out = append(out, src[pos:]...)
	if fi.timeUsed {
		out = append(out, "\nvar _ time.Duration // keep the time import used\n"...)
	}
	// sanity: must still parse
	if _, err := parser.ParseFile(token.NewFileSet(), path, out, parser.SkipObjectResolution); err != nil {
		return nil, nil, fmt.Errorf("instrumented %s does not parse: %v", path, err)
	}
	return out, fi.problems, nil
}

// libraryDirs lists the package directories of /repo that are instrumented.
func libraryDirs(repo string) ([]string, error) {
	skipTop := map[string]bool{"cmd": true, "examples": true, "scripts": true, "verifsim": true, ".git": true, "drpctest": true}
	skipInternal := map[string]bool{"backcompat": true, "grpccompat": true, "integration": true, "twirpcompat": true}
	var dirs []string
	err := filepath.WalkDir(repo, func(p string, d os.DirEntry, err error) error {
		if err != nil {
			return err
		}
		if !d.IsDir() {
			return nil
		}
		rel, _ := filepath.Rel(repo, p)
		if rel == "." {
			dirs = append(dirs, p)
			return nil
		}
		parts := strings.Split(rel, string(filepath.Separator))
		if skipTop[parts[0]] || strings.HasPrefix(parts[0], ".") {
			return filepath.SkipDir
		}
		if parts[0] == "internal" && len(parts) > 1 && skipInternal[parts[1]] {
			return filepath.SkipDir
		}
		if _, err := os.Stat(filepath.Join(p, "go.mod")); err == nil {
			return filepath.SkipDir // nested module
		}
		dirs = append(dirs, p)
		return nil
	})
	return dirs, err
}
