package sim

import (
	"crypto/sha256"
	"encoding/hex"
	"fmt"
	"hash"
	"strings"
	"testing/synctest"
	"time"

	"storj.io/drpc/verifsim"
)

// Policy kinds (drawn per run on the "prog" stream).
const (
	PolUniform = iota
	PolSticky
	PolPCT
	PolStarve
	numPolicies
)

var policyNames = []string{"uniform", "sticky", "pct", "starve"}

// Event is one entry of the recorded history.
type Event struct {
	Step int
	Task string
	Kind string
	Data string
}

// Director owns every scheduling decision of a run.
type Director struct {
	RT     *verifsim.Runtime
	Ch     *Choices
	Step   int
	Budget int

	Policy     int
	StickyP    float64
	StarvePref string // task-name prefix that is starved (PolStarve)
	pctPrio    map[int]uint64
	pctChange  map[int]bool

	// ClockActions returns the durations by which the director may advance
	// the fake clock right now (nil: no timer can be pending).
	ClockActions func() []time.Duration
	// ClockP is the probability with which a clock action is preferred
	// while tasks are still ready (seeded mode).
	ClockP float64
	// AfterStep runs invariants after every step; a non-empty return stops
	// the run.
	AfterStep func() bool

	last    *verifsim.Task
	ready   []*verifsim.Task
	h       hash.Hash
	Verbose bool
	Lines   []string // first lines of the log (always kept, bounded)
	KeepN   int
	SimTime time.Duration
	History []Event
	States  map[uint64]struct{} // distinct abstract states seen
	Preempt int                 // number of steps that switched away from a ready task
	stopped bool
	// Forced, if set, is released next without consuming a decision (planned
	// fault injection at an exact step).
	Forced *verifsim.Task
	// AtStep is called before the decision of every step with the step number
	// about to be executed.
	AtStep func(step int)
	Decisions []Decision // non-default scheduling decisions (for replay files)
}

// Decision records one scheduling decision that deviated from the default.
type Decision struct {
	Step   int    `json:"step"`
	Choice int    `json:"choice"`
	Of     int    `json:"of"`
	Task   string `json:"task"`
	Label  string `json:"label"`
}

func NewDirector(rt *verifsim.Runtime, ch *Choices, budget int) *Director {
	d := &Director{RT: rt, Ch: ch, Budget: budget, h: sha256.New(), KeepN: 60, States: map[uint64]struct{}{}}
	d.pctPrio = map[int]uint64{}
	d.pctChange = map[int]bool{}
	return d
}

// DrawPolicy chooses the scheduling policy of the run.
func (d *Director) DrawPolicy() {
	d.Policy = d.Ch.Weighted("policy", []int{6, 8, 4, 1})
	d.StarvePref = []string{"manageReader", "manageStreams", "cancel", "cli"}[d.Ch.Pick("policy", 4)]
	d.StickyP = []float64{0.5, 0.8, 0.95}[d.Ch.Pick("policy", 3)]
	if d.Policy == PolPCT && !d.Ch.Replay {
		r := d.Ch.rng("pct")
		for i := 0; i < 1+r.Intn(3); i++ {
			d.pctChange[r.Intn(400)] = true
		}
	}
}

// Logf adds a line to the deterministic run log.
func (d *Director) Logf(format string, args ...any) {
	s := fmt.Sprintf(format, args...)
	d.h.Write([]byte(s))
	d.h.Write([]byte{'\n'})
	if d.Verbose || len(d.Lines) < d.KeepN {
		d.Lines = append(d.Lines, s)
	}
}

// Record adds a history event (and logs it).
func (d *Director) Record(task, kind, data string) {
	d.History = append(d.History, Event{d.Step, task, kind, data})
	d.Logf("  ev %d %s %s %s", d.Step, task, kind, data)
}

// LogHash returns the hash of the log so far.
func (d *Director) LogHash() string { return hex.EncodeToString(d.h.Sum(nil)) }

// Stop makes Run return after the current step.
func (d *Director) Stop() { d.stopped = true }

func (d *Director) prio(t *verifsim.Task) uint64 {
	p, ok := d.pctPrio[t.ID]
	if !ok {
		p = d.Ch.rng("pct").Uint64() | 1<<63
		d.pctPrio[t.ID] = p
	}
	return p
}

// pick implements the seeded policies; it returns an index into cands (tasks
// first, then clock actions).
func (d *Director) pick(r *Rand, cands []*verifsim.Task, nclock int) int {
	nt := len(cands)
	if nt == 0 {
		return r.Intn(nclock)
	}
	if nclock > 0 && r.Chance(d.ClockP) {
		return nt + r.Intn(nclock)
	}
	switch d.Policy {
	case PolSticky:
		if cands[0] == d.last && r.Chance(d.StickyP) {
			return 0
		}
		return r.Intn(nt)
	case PolPCT:
		if d.pctChange[d.Step] && d.last != nil {
			d.pctPrio[d.last.ID] = uint64(d.Step) // below every initial priority
		}
		best, bp := 0, uint64(0)
		for i, t := range cands {
			if p := d.prio(t); p > bp {
				best, bp = i, p
			}
		}
		return best
	case PolStarve:
		var ok []int
		for i, t := range cands {
			if !strings.Contains(t.Name, d.StarvePref) {
				ok = append(ok, i)
			}
		}
		if len(ok) > 0 {
			return ok[r.Intn(len(ok))]
		}
		return r.Intn(nt)
	default:
		return r.Intn(nt)
	}
}

// StepOnce performs one director step. It returns false at global quiescence
// (nothing ready and no clock action available).
func (d *Director) StepOnce() bool {
	synctest.Wait()
	if !d.RT.Settled() {
		panic("verifsim: task still starting after quiescence")
	}
	if d.AtStep != nil {
		d.AtStep(d.Step + 1)
		synctest.Wait()
	}
	if f := d.Forced; f != nil {
		d.Forced = nil
		if f.State == verifsim.StReady {
			d.Step++
			d.Logf("%d %s @%s forced", d.Step, f.Name, f.Label)
			d.last = f
			d.RT.Release(f)
			synctest.Wait()
			d.noteState()
			if d.AfterStep != nil && d.AfterStep() {
				d.stopped = true
			}
			return true
		}
	}
	d.ready = d.RT.Ready(d.ready)
	// canonical order: the task that ran last first, then creation order
	cands := d.ready
	if d.last != nil {
		for i, t := range cands {
			if t == d.last {
				copy(cands[1:i+1], cands[0:i])
				cands[0] = t
				break
			}
		}
	}
	var clocks []time.Duration
	if d.ClockActions != nil {
		clocks = d.ClockActions()
	} else if dl := d.RT.PendingDeadlines(); len(dl) > 0 {
		clocks = append(clocks, dl[0]+time.Nanosecond)
		if last := dl[len(dl)-1]; last != dl[0] {
			clocks = append(clocks, last+time.Nanosecond)
		}
	}
	n := len(cands) + len(clocks)
	if n == 0 {
		return false
	}
	idx := d.Ch.Draw("sched", n, func(r *Rand) int { return d.pick(r, cands, len(clocks)) })
	d.Step++
	if idx >= len(cands) {
		dur := clocks[idx-len(cands)]
		d.Logf("%d clock +%s", d.Step, dur)
		if idx != 0 {
			d.Decisions = append(d.Decisions, Decision{d.Step, idx, n, "clock", dur.String()})
		}
		time.Sleep(dur)
		d.SimTime += dur
		synctest.Wait()
	} else {
		t := cands[idx]
		if idx != 0 {
			d.Decisions = append(d.Decisions, Decision{d.Step, idx, n, t.Name, t.Label})
			if d.last != nil && len(cands) > 0 && cands[0] == d.last {
				d.Preempt++
			}
		}
		d.Logf("%d %s @%s /%d", d.Step, t.Name, t.Label, n)
		d.last = t
		d.RT.Release(t)
		synctest.Wait()
	}
	d.noteState()
	if d.AfterStep != nil && d.AfterStep() {
		d.stopped = true
	}
	return true
}

// noteState hashes the abstract state (task name, state, label multiset).
func (d *Director) noteState() {
	var h uint64 = 1469598103934665603
	for _, t := range d.RT.Tasks() {
		if t.State == verifsim.StExited || t.State == verifsim.StPending {
			continue
		}
		x := hashStr(t.Name) ^ (hashStr(t.Label) * 31) ^ uint64(t.State)
		h += x * 1099511628211 // order-insensitive combination
	}
	d.States[h] = struct{}{}
}

// Run steps until global quiescence, budget exhaustion or Stop. It reports
// whether global quiescence was reached.
func (d *Director) Run() bool {
	for d.Step < d.Budget && !d.stopped {
		if !d.StepOnce() {
			return true
		}
	}
	return false
}

// RunUntil steps until cond() holds (checked after each step), quiescence,
// budget or Stop. Returns true if cond held.
func (d *Director) RunUntil(cond func() bool) bool {
	for d.Step < d.Budget && !d.stopped {
		if cond() {
			return true
		}
		if !d.StepOnce() {
			return cond()
		}
	}
	return cond()
}

// Census returns the blocked-forever census (only meaningful at global
// quiescence).
func (d *Director) Census() []string { return d.RT.Census() }
