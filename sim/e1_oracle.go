package sim

import (
	"bytes"
	"context"
	"errors"
	"fmt"
	"io"
	"regexp"
	"sort"
	"strconv"
	"strings"

	"storj.io/drpc/verifsim"
)

// oracle ownership: which oracle names count as violations of which property.
var e1Owners = map[string][]string{
	"C01": {"delivery", "flush", "completeness", "fault-send-ok"},
	"C02": {"crosstalk", "foreign-error", "isolation", "handler-twice", "probe", "client-stuck", "server-dropped", "next-rpc-stuck"},
	"C04": {"cancel-hang", "cancel-error", "cancel-later-op", "cancel-peer", "probe", "close-hang"},
	"C05": {"fault-hang", "fault-closed", "fault-delivery", "panic", "fault-newstream", "fault-send-ok", "close-count"},
	"C06": {"probe", "next-rpc-stuck", "server-dropped"},
	"C07": {"wire", "concurrent-io", "wire-trailing"},
	"C10": {"handler-error", "spurious-error", "probe", "client-stuck", "panic"},
	"C11": {"metadata", "metadata-wire"},
	"C12": {"close-hang", "close-count", "close-leak", "close-later-op", "close-ctx", "serve-order", "panic", "fault-hang", "pooled-close", "pooled-leak", "pooled-conn-leak"},
	"C13": {"panic", "byz-memory", "close-leak"},
	"C15": {"pool-bounds", "pooled-conn-leak", "pooled-close", "pooled-hang", "pooled-probe", "pooled-leak", "panic", "crosstalk", "delivery"},
	"C18": {"oldreader", "metadata-wire", "delivery", "completeness", "crosstalk", "probe", "handler-error", "spurious-error", "client-stuck"},
}

// delivery-class oracles are shared: C02 owns crosstalk, C01 owns the rest, C05
// owns them all under faults.
func (x *e1) deliveryViol(kind, sig, detail string) {
	switch {
	case x.spec.Prop == "C05":
		x.viol("fault-delivery", kind+": "+sig, detail)
	case kind == "crosstalk":
		x.viol("crosstalk", sig, detail)
	default:
		x.viol("delivery", kind+": "+sig, detail)
	}
}

func peerOf(sd *sideRec) *sideRec {
	if sd.client {
		return sd.rpc.H
	}
	return sd.rpc.C
}

func dataSends(sd *sideRec) []*sendRec {
	var out []*sendRec
	for _, s := range sd.Sends {
		if s.Op.Seq != seqReq {
			out = append(out, s)
		}
	}
	return out
}

// senders returns the number of sending tasks the side's script has (static).
func senders(sd *sideRec) int {
	spec := sd.rpc.Spec
	ops, aux := spec.HOps, spec.HAux
	if sd.client {
		ops, aux = spec.COps, spec.CAux
	}
	n := 0
	has := func(l []Op) bool {
		for _, o := range l {
			if o.Kind == OpSend {
				return true
			}
		}
		return false
	}
	if has(ops) {
		n++
	}
	for _, a := range aux {
		if has(a) {
			n++
		}
	}
	return n
}

// afterRecv is the per-message delivery oracle (C01 prefix / integrity /
// exactly-once; C02 attribution).
func (x *e1) afterRecv(sd *sideRec, rr *recvRec) {
	r := sd.rpc
	k := r.Spec.Idx
	peer := peerOf(sd)
	if rr.Err != nil {
		if sd.FirstErr == nil {
			sd.FirstErr = rr.Err
		}
		if sd.client {
			x.checkClientErr(r, rr.Err)
		}
		return
	}
	twoRecv := (sd.client && r.Spec.TwoRecvC) || (!sd.client && r.Spec.TwoRecvH)
	// (only after end-of-stream: a receive may also fail because its implicit flush
	// failed, which says nothing about the receive side)
	if sd.FirstErr != nil && errors.Is(sd.FirstErr, io.EOF) && !twoRecv {
		x.deliveryViol("after-error", "message delivered after a receive error", fmt.Sprintf("rpc%d %s", k, msgDescribe(rr.Data)))
	}
	b := rr.Data
	side := "handler"
	if sd.client {
		side = "client"
	}
	if rpc, dir, _, _, _, ok := msgHeader(b); ok && (rpc != k || dir != peer.dir) {
		x.deliveryViol("crosstalk", fmt.Sprintf("%s received %s message", side, classifyForeign(b, k, peer.dir)),
			fmt.Sprintf("rpc%d got %s", k, msgDescribe(b)))
		return
	}
	ps := dataSends(peer)
	if sd.client && r.Spec.Shape == ShUnary {
		return
	}
	multi := r.Spec.Duplex
	if !multi {
		i := sd.recvPos
		sd.recvPos++
		if i >= len(ps) {
			x.deliveryViol("extra", fmt.Sprintf("%s received a message that was never sent", side), fmt.Sprintf("rpc%d pos=%d %s", k, i, msgDescribe(b)))
			return
		}
		if !bytes.Equal(b, ps[i].Bytes) {
			kind := "corrupt"
			for j, s := range ps {
				if j != i && bytes.Equal(b, s.Bytes) {
					if j < i {
						kind = "duplicate-or-reorder"
					} else {
						kind = "gap-or-reorder"
					}
				}
			}
			if len(b) < len(ps[i].Bytes) && bytes.Equal(b, ps[i].Bytes[:len(b)]) {
				kind = "truncated"
			} else if len(b) > len(ps[i].Bytes) && bytes.Equal(b[:len(ps[i].Bytes)], ps[i].Bytes) {
				kind = "merged"
			}
			x.deliveryViol(kind, fmt.Sprintf("%s received %s message", side, kind),
				fmt.Sprintf("rpc%d pos=%d got %s want %s", k, i, msgDescribe(b), msgDescribe(ps[i].Bytes)))
		}
		return
	}
	_, _, sender, seq, _, ok := msgHeader(b)
	if !ok {
		x.deliveryViol("corrupt", fmt.Sprintf("%s received garbled message", side), fmt.Sprintf("rpc%d %s", k, msgDescribe(b)))
		return
	}
	if (sd.client && r.Spec.TwoRecvC) || (!sd.client && r.Spec.TwoRecvH) {
		// two concurrent receivers: each message goes to exactly one of them; the
		// order in which their calls return is not the delivery order
		key := sender<<16 | seq
		if sd.seen == nil {
			sd.seen = map[int]bool{}
		}
		if sd.seen[key] {
			x.deliveryViol("duplicate-or-reorder", fmt.Sprintf("%s received the same message twice (two receivers)", side), fmt.Sprintf("rpc%d sender=%d seq=%d", k, sender, seq))
			return
		}
		sd.seen[key] = true
		for _, s := range ps {
			if s.Op.Sender == sender && s.Op.Seq == seq {
				if !bytes.Equal(b, s.Bytes) {
					x.deliveryViol("corrupt", fmt.Sprintf("%s received corrupt message", side), fmt.Sprintf("rpc%d got %s want %s", k, msgDescribe(b), msgDescribe(s.Bytes)))
				}
				return
			}
		}
		x.deliveryViol("extra", fmt.Sprintf("%s received a message that was never sent", side), fmt.Sprintf("rpc%d %s", k, msgDescribe(b)))
		return
	}
	want := sd.nextSeq[sender]
	switch {
	case seq < want:
		x.deliveryViol("duplicate-or-reorder", fmt.Sprintf("%s received duplicate-or-reorder message", side), fmt.Sprintf("rpc%d sender=%d seq=%d want=%d", k, sender, seq, want))
		return
	case seq > want:
		x.deliveryViol("gap-or-reorder", fmt.Sprintf("%s received gap-or-reorder message", side), fmt.Sprintf("rpc%d sender=%d seq=%d want=%d", k, sender, seq, want))
	}
	sd.nextSeq[sender] = seq + 1
	for _, s := range ps {
		if s.Op.Sender == sender && s.Op.Seq == seq {
			if !bytes.Equal(b, s.Bytes) {
				x.deliveryViol("corrupt", fmt.Sprintf("%s received corrupt message", side), fmt.Sprintf("rpc%d got %s want %s", k, msgDescribe(b), msgDescribe(s.Bytes)))
			}
			return
		}
	}
	x.deliveryViol("extra", fmt.Sprintf("%s received a message that was never sent", side), fmt.Sprintf("rpc%d %s", k, msgDescribe(b)))
}

func payloadKey(b []byte) string {
	return strconv.Itoa(len(b)) + ":" + strconv.FormatUint(hashBytes(b), 16)
}

func hashBytes(b []byte) uint64 {
	var h uint64 = 1469598103934665603
	for _, c := range b {
		h ^= uint64(c)
		h *= 1099511628211
	}
	return h
}

func (x *e1) monitorOf(sd *sideRec) *WireMonitor {
	if sd.client {
		return x.monC
	}
	return x.monS
}

// onWire counts complete message packets with this payload seen by the monitor.
func onWire(m *WireMonitor, b []byte) int {
	n := 0
	for _, p := range m.Packets {
		if p.Kind == kMessage && bytes.Equal(p.Data, b) {
			n++
		}
	}
	return n
}

// afterSend: a successful auto-flush send must already be completely on the
// wire (C01: "reaches the peer without any further call by the sender").
func (x *e1) afterSend(sd *sideRec, rec *sendRec) {
	if rec.Err != nil {
		if sd.client {
			x.checkClientErr(sd.rpc, rec.Err)
		}
		return
	}
	if x.prog.Cfg.Manual {
		return
	}
	x.checkFlushed(sd, rec, "send")
}

func (x *e1) checkFlushed(sd *sideRec, rec *sendRec, when string) {
	if x.pooled != nil {
		return // per-connection monitors; the flush clause is decided in the single-connection families
	}
	// number of successful sends with identical bytes so far
	same := 0
	for _, s := range sd.Sends {
		if s.Done && s.Err == nil && bytes.Equal(s.Bytes, rec.Bytes) {
			same++
		}
	}
	if got := onWire(x.monitorOf(sd), rec.Bytes); got < same {
		x.viol("flush", fmt.Sprintf("successful %s returned but message not completely handed to the transport (manual=%v)", when, x.prog.Cfg.Manual),
			fmt.Sprintf("rpc%d %s wire=%d want>=%d", sd.rpc.Spec.Idx, rec.Op, got, same))
	}
}

func (x *e1) afterFlush(sd *sideRec, err error, flushStart int) {
	if err != nil {
		return
	}
	for _, s := range sd.Sends {
		// only sends that had returned before the flush call began are covered
		if s.Done && s.Err == nil && s.End < flushStart {
			x.checkFlushed(sd, s, "flush")
		}
	}
}

var reRPC = regexp.MustCompile(`rpc (\d+)`)

// checkClientErr: an error returned to a call of rpc k must not be another
// rpc's error (C02) and, when rpc k's handler failed, must be that failure
// (C10, checked at the end).
func (x *e1) checkClientErr(r *rpcRec, err error) {
	if err == nil {
		return
	}
	if m := reRPC.FindStringSubmatch(err.Error()); m != nil {
		if j, _ := strconv.Atoi(m[1]); j != r.Spec.Idx {
			x.viol("foreign-error", "call returned the error of a different rpc", fmt.Sprintf("rpc%d got %q", r.Spec.Idx, trunc(err.Error(), 60)))
		}
	}
}

// checkMeta (C11): the handler of rpc k sees exactly the metadata of call k.
func (x *e1) checkMeta(r *rpcRec) {
	want := r.Spec.Meta
	if !r.Spec.HasMeta || len(want) == 0 {
		if len(r.HMeta) != 0 {
			x.viol("metadata", "handler sees metadata although its call attached none: "+metaClass(r.HMeta, r.Spec.Idx),
				fmt.Sprintf("rpc%d got %s", r.Spec.Idx, fmtMap(r.HMeta)))
		}
		return
	}
	if len(r.HMeta) != len(want) {
		x.viol("metadata", fmt.Sprintf("handler metadata has wrong size: %s", metaClass(r.HMeta, r.Spec.Idx)),
			fmt.Sprintf("rpc%d got %s want %s", r.Spec.Idx, fmtMap(r.HMeta), fmtMap(want)))
		return
	}
	for k, v := range want {
		if gv, ok := r.HMeta[k]; !ok || gv != v {
			x.viol("metadata", fmt.Sprintf("handler metadata differs from the call's: %s", metaClass(r.HMeta, r.Spec.Idx)),
				fmt.Sprintf("rpc%d key %q got %q want %q", r.Spec.Idx, trunc(k, 20), trunc(gv, 20), trunc(v, 20)))
			return
		}
	}
}

var reMetaRPC = regexp.MustCompile(`(?:rpc-|key|rpc)(\d+)`)

func metaClass(m map[string]string, k int) string {
	if len(m) == 0 {
		return "missing"
	}
	for key, v := range m {
		for _, s := range []string{key, v} {
			if mm := reMetaRPC.FindStringSubmatch(s); mm != nil {
				if j, _ := strconv.Atoi(mm[1]); j != k {
					return "pairs-of-another-call"
				}
			}
		}
	}
	return "altered"
}

// ---- censuses -----------------------------------------------------------------------

type blockedCall struct {
	Task  string
	API   string
	Where string
}

// blockedCalls lists application tasks that are inside an API call.
func (x *e1) blockedCalls() []blockedCall {
	var out []blockedCall
	for _, t := range x.rt.Tasks() {
		if t.State == verifsim.StExited || t.State == verifsim.StPending || t.API == "" {
			continue
		}
		out = append(out, blockedCall{t.Name, t.API, t.Label})
	}
	return out
}

var reAPIrpc = regexp.MustCompile(`rpc(\d+)`)

func apiRPC(api string) int {
	if strings.Contains(api, "probe") {
		return 200
	}
	if m := reAPIrpc.FindStringSubmatch(api); m != nil {
		n, _ := strconv.Atoi(m[1])
		return n
	}
	return -1
}

func apiVerb(api string) string {
	if i := strings.IndexByte(api, ' '); i > 0 {
		return api[:i]
	}
	return api
}

// whereClass reduces a park label to a schedule- and line-number-independent
// class: instrumented sites look like "pkg/file.go:123(Func)" and are reduced to
// "Func".
func whereClass(label string) string {
	switch {
	case strings.HasPrefix(label, "net.write"):
		return "net.write"
	case strings.HasPrefix(label, "net.read"):
		return "net.read"
	case strings.HasPrefix(label, "net.wake"):
		return "net"
	case strings.HasPrefix(label, "listener."):
		return "listener.accept"
	case strings.HasPrefix(label, "mutex:"):
		return "lock:" + label[6:]
	case label == "mutex" || label == "mutex-retry" || label == "lock" || label == "unlock" || label == "trylock":
		return "lock"
	case strings.HasPrefix(label, "cond:"):
		return label
	case label == "cond" || label == "cond-woken":
		return "cond"
	}
	if i := strings.IndexByte(label, '('); i > 0 && strings.HasSuffix(label, ")") {
		return label[i+1 : len(label)-1]
	}
	return label
}

// roleOfTask maps a task name to a stable role name, e.g.
// "cli-init/manageReader#0" -> "cli.manageReader", "srv/track#1/manageStreams#0"
// -> "srv.manageStreams".
func (x *e1) roleOfTask(name string) string {
	side := "srv"
	if strings.HasPrefix(name, "cli") {
		side = "cli"
	}
	last := name
	if i := strings.LastIndexByte(name, '/'); i >= 0 {
		last = name[i+1:]
	}
	base := last
	if i := strings.IndexByte(base, '#'); i >= 0 {
		base = base[:i]
	}
	switch {
	case last == "track#0":
		return "srv.ctxwatch"
	case base == "track":
		return "srv.serveone"
	case name == "srv" && x.prog.Cfg.Serve:
		return "srv.accept"
	case name == "srv":
		return "srv.serveone"
	case strings.HasPrefix(name, "cli") && !strings.Contains(name, "/"):
		return name
	}
	return side + "." + base
}

func (x *e1) libCensus() []string {
	var out []string
	for _, t := range x.rt.Tasks() {
		if t.State == verifsim.StExited || t.State == verifsim.StPending {
			continue
		}
		if t.API != "" {
			continue
		}
		out = append(out, x.roleOfTask(t.Name)+"@"+whereClass(t.Label))
	}
	sort.Strings(out)
	return out
}

func (x *e1) cancelMode() string {
	if x.prog.Cfg.SoftC {
		return "soft"
	}
	return "hard"
}

// checkPanics reports task panics (C05/C12/C13).
func (x *e1) checkPanics() {
	for _, t := range x.rt.Tasks() {
		if t.Panic != nil {
			msg := fmt.Sprint(t.Panic)
			x.viol("panic", "panic in task: "+trunc(msg, 80), t.Name+"\n"+t.Stack)
		}
	}
}

// checkHangs evaluates the blocked-forever census at a global quiescence.
// phase: "q1" (faults/stalls still active), "q2" (healed), "q3" (after probe).
func (x *e1) checkHangs(phase string) {
	calls := x.blockedCalls()
	if len(calls) == 0 {
		return
	}
	x.checkArrivedNotReceived(calls)
	byRPC := map[int][]blockedCall{}
	for _, c := range calls {
		byRPC[apiRPC(c.API)] = append(byRPC[apiRPC(c.API)], c)
	}
	stalledNow := false
	for _, e := range x.stalled {
		if e.StalledIn {
			stalledNow = true
		}
	}
	describe := func(cs []blockedCall) string {
		var parts []string
		for _, c := range cs {
			parts = append(parts, apiVerb(c.API)+"@"+whereClass(c.Where))
		}
		sort.Strings(parts)
		return strings.Join(parts, ",")
	}
	// C04: a cancelled rpc must not have client calls in flight at any quiescence
	for _, r := range x.recs {
		if !r.Cancelled {
			continue
		}
		var cli []blockedCall
		for _, c := range byRPC[r.Spec.Idx] {
			if !strings.HasPrefix(c.API, "h.") {
				cli = append(cli, c)
			}
		}
		if len(cli) > 0 {
			x.viol("cancel-hang", fmt.Sprintf("blocked-forever after cancel mode=%s manager=%s calls=[%s] conn-closed=%v stalled=%v",
				x.cancelMode(), x.whereRole("cli.manageStreams"), describeSet(cli), connClosed(x.conn), stalledNow),
				fmt.Sprintf("phase=%s rpc%d census=%v lib=%v", phase, r.Spec.Idx, cli, x.libCensus()))
		}
	}
	// closing releases parked transport I/O even when the peer never reads, so after a
	// close nothing may stay inside a call, stalled or not
	_, connClose := x.did["conn-close"]
	_, trClose := x.did["tr-close"]
	// cancelling the server's context closes the transport only in hard-cancel mode
	_, serveCancel := x.did["serve-cancel"]
	// a server whose reader is parked behind a message its handler never receives
	// cannot notice that the peer went away; a handler waiting there is not counted
	relevant := calls
	if x.serverBlind() {
		relevant = nil
		for _, c := range calls {
			if !strings.HasPrefix(c.API, "h.") {
				relevant = append(relevant, c)
			}
		}
		x.res.probe("peer_close_unnoticed_behind_unread_message")
	}
	if stalledNow && (connClose || trClose || (serveCancel && !x.prog.Cfg.SoftS)) && len(relevant) > 0 {
		x.viol("close-hang", fmt.Sprintf("blocked-forever after close calls=[%s]; srv.manageStreams@%s srv.serveone@%s", describeSet(relevant), x.whereRole("srv.manageStreams"), x.whereRole("srv.serveone")),
			fmt.Sprintf("phase=%s (stalled) census=%v lib=%v", phase, calls, x.libCensus()))
	}
	if stalledNow {
		return
	}
	// after an I/O fault or a close nothing may stay inside a call
	if x.ioFired() && len(relevant) > 0 && !x.blindOnly() {
		x.viol("fault-hang", fmt.Sprintf("blocked-forever after transport fault calls=[%s]", describe(relevant)),
			fmt.Sprintf("phase=%s census=%v lib=%v", phase, calls, x.libCensus()))
	}
	if (x.closeStep > 0 || x.transportClosedByHarness()) && len(relevant) > 0 {
		x.viol("close-hang", fmt.Sprintf("blocked-forever after close calls=[%s]; srv.manageStreams@%s srv.serveone@%s", describe(relevant), x.whereRole("srv.manageStreams"), x.whereRole("srv.serveone")),
			fmt.Sprintf("phase=%s census=%v lib=%v", phase, calls, x.libCensus()))
	}
	// peer side of a cancelled rpc: once everything is delivered the handler
	// must not stay blocked in its stream (C04 e)
	if phase != "q1" {
		for _, r := range x.recs {
			if !r.Cancelled || !r.HStarted || r.HReturned {
				continue
			}
			var hc []blockedCall
			for _, c := range byRPC[r.Spec.Idx] {
				if strings.HasPrefix(c.API, "h.") {
					hc = append(hc, c)
				}
			}
			reached := x.whereRole("srv.manageReader") == "net.read" || x.whereRole("srv.manageReader") == "exited"
			if len(hc) > 0 && !reached {
				x.res.probe("peer_cancel_stuck_behind_unread_message")
			}
			if len(hc) > 0 && x.cep.Queued() == 0 && x.sep.Queued() == 0 && reached {
				x.viol("cancel-peer", fmt.Sprintf("handler of cancelled rpc still blocked after delivery mode=%s calls=[%s]", x.cancelMode(), describe(hc)),
					fmt.Sprintf("phase=%s rpc%d lib=%v", phase, r.Spec.Idx, x.libCensus()))
			}
		}
	}
}

// whereRole returns where the (first) task with the given role is parked.
func (x *e1) whereRole(role string) string {
	for _, c := range x.libCensus() {
		if i := strings.IndexByte(c, '@'); i > 0 && c[:i] == role {
			return c[i+1:]
		}
	}
	return "exited"
}

// describeSet lists the distinct verb@where pairs of blocked calls.
func describeSet(cs []blockedCall) string {
	m := map[string]bool{}
	for _, c := range cs {
		m[apiVerb(c.API)+"@"+whereClass(c.Where)] = true
	}
	return strings.Join(sortedKeys(m), ",")
}

// serverBlind: the server's connection reader is parked handing a message to a
// handler that does not receive, so it performs no transport read and cannot
// notice that the peer went away (head-of-line blocking by design, DESIGN.md
// D13). Expectations about the server side noticing a REMOTE close are waived
// then; a fault or close on the server's own endpoint/objects still counts.
func (x *e1) serverBlind() bool {
	if x.whereRole("srv.manageReader") != "cond:Put" {
		return false
	}
	// whatever failed on the server's endpoint, the parked reader performs no
	// transport call that could tell the manager: an error attached to data is
	// reported only after the data has been handed over (which is what the reader
	// is still doing), and a failed write is reported to the handler that issued
	// it - what happens next is up to that handler
	if _, ok := x.did["serve-cancel"]; ok {
		return false
	}
	return true
}

// blindOnly: the only thing that failed is the endpoint of a server that cannot
// notice it (its reader is parked behind an unread message): nothing tells the
// client either, so its calls cannot be expected to return.
func (x *e1) blindOnly() bool {
	_, trClose := x.did["tr-close"]
	for _, f := range x.cep.Faults {
		if f.Fired && f.Kind != "peer-close" {
			return false
		}
	}
	return x.serverBlind() && x.closeStep == 0 && !trClose
}

func (x *e1) ioFired() bool {
	for _, e := range []*Endpoint{x.cep, x.sep} {
		for _, f := range e.Faults {
			if f.Fired {
				return true
			}
		}
	}
	return false
}

func (x *e1) transportClosedByHarness() bool {
	for _, k := range []string{"conn-close", "tr-close", "serve-cancel"} {
		if _, ok := x.did[k]; ok {
			return true
		}
	}
	return false
}

// faultBefore reports whether an I/O fault fired or a harness close/cancel
// happened strictly before step.
func (x *e1) faultBefore(step int) bool {
	for _, e := range []*Endpoint{x.cep, x.sep} {
		for _, f := range e.Faults {
			if f.Fired && f.FiredAt < step {
				return true
			}
		}
	}
	for _, k := range []string{"conn-close", "tr-close", "serve-cancel"} {
		if s, ok := x.did[k]; ok && s < step {
			return true
		}
	}
	return false
}

func isCtxErr(err error) bool {
	return errors.Is(err, context.Canceled) || errors.Is(err, context.DeadlineExceeded)
}

// checkEnd runs the end-of-run oracles over the recorded history.
func (x *e1) checkEnd(connAlive bool, faultFree bool) {
	// C11: the library never writes into a map the application handed to AddPairs
	if x.sharedMeta != nil {
		want := sharedMetaTemplate()
		same := len(want) == len(x.sharedMeta)
		for k, v := range want {
			if x.sharedMeta[k] != v {
				same = false
			}
		}
		if !same {
			x.viol("metadata", "the map the application passed to AddPairs was modified by later Add calls", fmtMap(x.sharedMeta))
		}
	}
	// C07: wire monitors
	for _, m := range []*WireMonitor{x.monC, x.monS} {
		for _, v := range m.Viol {
			x.viol("wire", m.Name+" wire: "+stripNums(v), v)
		}
		if faultFree && connAlive && m.Trailing() > 0 {
			x.viol("wire-trailing", m.Name+" wire ends inside a frame on a healthy connection", fmt.Sprintf("%d bytes", m.Trailing()))
		}
	}
	if x.net.Stats.ConcurrentWrites > 0 {
		x.viol("concurrent-io", "two Transport.Write calls in flight at once", "")
	}
	if x.net.Stats.ConcurrentReads > 0 {
		x.viol("concurrent-io", "two Transport.Read calls in flight at once", "")
	}

	x.checkMetaWire()
	x.checkServerDropped()

	for _, r := range x.recs {
		spec := r.Spec
		k := spec.Idx
		// C10: handler errors reach the caller intact. Decided whenever the error
		// packet was consumed by the client's connection reader (byte accounting on
		// the server's wire), even if the connection went away afterwards.
		if spec.HRet == RetErr && !spec.Unknown && !r.Cancelled && !x.byz && !x.ioFired() && r.HReturned && x.pooled == nil && x.errConsumed(r) {
			var got error
			if spec.Shape == ShUnary {
				// Invoke is send+receive: if the connection went away while it was
				// still sending, it may report that instead
				// still sending, it may report that instead; if none of its writes failed,
				// its result is the result of its receive
				if r.InvokeDone && !r.InvokeWriteFailed {
					got = r.InvokeErr
					if got == nil {
						x.viol("handler-error", "unary call returned nil although its handler failed", fmt.Sprintf("rpc%d", k))
					}
				}
			} else if !r.C.ClosedByMe || r.C.CloseStep > r.HRetStep {
				got = r.C.FirstErr
			}
			wantText := wantErrText(spec.HErr)
			if got != nil && !(r.C.ClosedByMe && got.Error() != wantText) {
				if got.Error() != wantText || errCode(got) != spec.HErr.Code {
					// a client that closed or half-broke the stream itself may see its own error
					if !(spec.Misbehaved && !isHandlerText(got)) {
						x.viol("handler-error", fmt.Sprintf("client error differs from handler error: text-equal=%v code-equal=%v got-class=%s",
							got.Error() == wantText, errCode(got) == spec.HErr.Code, errClass(got)),
							fmt.Sprintf("rpc%d got %q code=%d want %q code=%d", k, trunc(got.Error(), 50), errCode(got), trunc(wantText, 50), spec.HErr.Code))
					}
				}
			}
		}
		// C10: a handler error is actually sent (never swallowed or replaced by a
		// plain end-of-stream) when the stream was still open at that time
		// (a handler that half-closed itself before failing: once the client has
		// half-closed too the rpc is over, and whether the error can still be sent
		// is a race)
		if spec.HRet == RetErr && !spec.Unknown && r.HReturned && !r.Cancelled && faultFree && x.pooled == nil && !handlerHalfCloses(spec) &&
			!(r.C.ClosedByMe && r.C.CloseStep <= r.HRetStep) && (!x.serveDone || x.serveStep > r.HRetStep) &&
			!(spec.Shape == ShUnary && r.InvokeDone && r.ClientDoneStep <= r.HRetStep) {
			want := wantErrText(spec.HErr)
			found := false
			for _, p := range x.monS.Packets {
				if p.Kind == kError && len(p.Data) >= 8 && string(p.Data[8:]) == want && (x.sidOf(r) == 0 || p.Stream == x.sidOf(r)) {
					found = true
				}
			}
			// (a client that closes the stream without having waited for its outcome
			// races with the server's SendError: the close may terminate the server's
			// stream first, and then nothing is sent)
			abandoned := spec.Shape != ShUnary && r.C.ClosedByMe && (r.C.FirstErr == nil || r.C.CloseStep <= firstRecvErrStep(r.C))
			if !found && !x.clientEndedBefore(r) && x.serverMovedOn(r) && !abandoned {
				x.viol("handler-error", "handler returned an error but no error packet with its text was sent: error-class="+errFamily(spec.HErr), fmt.Sprintf("rpc%d want %q", k, trunc(want, 60)))
			}
		}
		if spec.Unknown && !r.Cancelled && faultFree && connAlive {
			var got error
			if spec.Shape == ShUnary {
				got = r.InvokeErr
			} else {
				got = r.C.FirstErr
			}
			if got != nil && !r.C.ClosedByMe && !spec.Misbehaved {
				if !strings.Contains(got.Error(), "unknown rpc") || !strings.Contains(got.Error(), spec.Name()) {
					x.viol("handler-error", "dispatcher failure for unknown rpc not reported intact", fmt.Sprintf("rpc%d got %q", k, trunc(got.Error(), 80)))
				}
			}
		}
		// C10: no spurious error for successful handlers; C02 isolation: a clean
		// rpc on a connection that stayed alive succeeds completely.
		if spec.Shape == ShUnary && spec.HRet == RetResp && !spec.Unknown && !r.Cancelled && faultFree && connAlive && r.InvokeDone && r.HReturned {
			if r.InvokeErr != nil && !(spec.CEnd == EndCloseCancel && isCtxErr(r.InvokeErr)) {
				x.viol("spurious-error", "unary call failed although its handler returned a response", fmt.Sprintf("rpc%d err=%s", k, errStr(r.InvokeErr)))
			}
		}
		if spec.Clean && !r.Cancelled && faultFree && connAlive && r.ClientDone && r.HReturned && spec.Shape != ShUnary {
			x.checkComplete(r)
		}
		// C04: operations issued after the cancel fail
		if r.Cancelled {
			x.checkAfterCancel(r)
		}
	}
}

func isHandlerText(err error) bool {
	return strings.Contains(err.Error(), "rpc ") || strings.Contains(err.Error(), "unknown rpc")
}

var reNums = regexp.MustCompile(`\d+`)

func stripNums(s string) string { return reNums.ReplaceAllString(s, "N") }

// checkComplete: completeness clause of C01 (and isolation clause of C02) for a
// clean rpc: every successful send was received, then exactly end-of-stream.
func (x *e1) checkComplete(r *rpcRec) {
	k := r.Spec.Idx
	for _, pair := range [][2]*sideRec{{r.C, r.H}, {r.H, r.C}} {
		snd, rcv := pair[0], pair[1]
		dir := "c2s"
		if !snd.client {
			dir = "s2c"
		}
		okSends := 0
		for _, s := range dataSends(snd) {
			if s.Op.Unenc {
				continue // refused by the sender's encoder, by design
			}
			if !s.Done || s.Err != nil {
				x.viol(x.complOracle(), fmt.Sprintf("send failed on a clean rpc dir=%s err-class=%s", dir, errClass(s.Err)), fmt.Sprintf("rpc%d %s err=%s", k, s.Op, errStr(s.Err)))
				return
			}
			okSends++
		}
		got := 0
		var last error
		for _, rr := range rcv.Recvs {
			if rr.Err == nil || errors.Is(rr.Err, errUndecodable) {
				got++ // an undecodable message did arrive
			} else {
				last = rr.Err
			}
		}
		readsAll := false
		ops := r.Spec.HOps
		aux := r.Spec.HAux
		if rcv.client {
			ops, aux = r.Spec.COps, r.Spec.CAux
		}
		for _, o := range ops {
			if o.Kind == OpRecvAll {
				readsAll = true
			}
		}
		for _, a := range aux {
			for _, o := range a {
				if o.Kind == OpRecvAll {
					readsAll = true
				}
			}
		}
		if !readsAll {
			continue
		}
		if got != okSends {
			x.viol(x.complOracle(), fmt.Sprintf("receiver obtained %s messages than were successfully sent before end-of-stream dir=%s", cmpWord(got, okSends), dir),
				fmt.Sprintf("rpc%d got=%d sent=%d last=%s", k, got, okSends, errStr(last)))
		}
		if last != io.EOF {
			x.viol(x.complOracle(), fmt.Sprintf("receiver did not obtain end-of-stream after graceful half-close dir=%s err-class=%s", dir, errClass(last)),
				fmt.Sprintf("rpc%d last=%s", k, errStr(last)))
		}
	}
}

func (x *e1) complOracle() string {
	if x.spec.Prop == "C02" {
		return "isolation"
	}
	return "completeness"
}

func cmpWord(a, b int) string {
	if a < b {
		return "fewer"
	}
	return "more"
}

func errClass(err error) string {
	switch {
	case err == nil:
		return "nil"
	case err == io.EOF:
		return "EOF"
	case isCtxErr(err):
		return "context"
	case strings.Contains(err.Error(), "closed"):
		return "closed"
	case strings.Contains(err.Error(), "rpc "):
		return "handler-error"
	}
	return "other"
}

// checkAfterCancel: every send or receive issued after the rpc's context was
// cancelled fails (C04 c).
func (x *e1) checkAfterCancel(r *rpcRec) {
	for _, s := range r.C.Sends {
		if s.Done && s.Start > r.CancelStep+0 && s.Err == nil && x.cancelSettled(r, s.Start) {
			x.viol("cancel-later-op", fmt.Sprintf("send issued after cancel succeeded mode=%s", x.cancelMode()), fmt.Sprintf("rpc%d %s start=%d cancel=%d", r.Spec.Idx, s.Op, s.Start, r.CancelStep))
		}
	}
}

// cancelSettled reports whether the library had observed the cancellation by
// step (the manager goroutine needs to run first: "later" is only meaningful once
// the stream's context is done).
func (x *e1) cancelSettled(r *rpcRec, step int) bool {
	for _, ev := range x.d.History {
		if ev.Kind == "ctx-observed" && ev.Data == fmt.Sprintf("rpc%d", r.Spec.Idx) && ev.Step < step {
			return true
		}
	}
	return false
}

// checkMetaWire (C11 b): every invoke-metadata packet the client put on the wire
// is the canonical protobuf encoding of the map of one of the program's calls.
func (x *e1) checkMetaWire() {
	invoked := map[uint64]bool{}
	for _, p := range x.monC.Packets {
		if p.Kind == kInvoke {
			invoked[p.Stream] = true
		}
	}
	for _, p := range x.monC.Packets {
		if p.Kind != kInvokeMD {
			continue
		}
		if !invoked[p.Stream] {
			x.res.probe("metadata_sent_without_invoke")
		}
		pairs, err := refDecodeMeta(p.Data)
		if err != nil {
			x.viol("metadata-wire", "invoke-metadata payload is not the protobuf encoding of map<string,string> field 1", fmt.Sprintf("s%d %x", p.Stream, p.Data[:min(len(p.Data), 40)]))
			continue
		}
		if !bytes.Equal(refEncodeMeta(pairs), p.Data) {
			x.viol("metadata-wire", "invoke-metadata payload is not canonically encoded", fmt.Sprintf("s%d", p.Stream))
		}
		got := map[string]string{}
		for _, kv := range pairs {
			got[kv.K] = kv.V
		}
		found := false
		for _, r := range x.recs {
			if r.Spec.HasMeta && len(r.Spec.Meta) == len(got) && len(pairs) == len(got) {
				same := true
				for k, v := range r.Spec.Meta {
					if gv, ok := got[k]; !ok || gv != v {
						same = false
					}
				}
				if same {
					found = true
				}
			}
		}
		if !found {
			x.viol("metadata-wire", "invoke-metadata payload decodes to a map no call attached", fmt.Sprintf("s%d %s", p.Stream, fmtMap(got)))
		}
	}
}

// checkByz (C13): a hostile peer may end the connection, it must not make the
// library allocate beyond the reader's bound. (Panics are checked in every phase;
// hangs are judged by the probe: either the connection is closed or it still works,
// unless the hostile bytes legitimately make the reader wait for more data.)
func (x *e1) checkByz() {
	max := x.prog.Cfg.ReaderMax
	if max == 0 {
		max = 4 << 20
	}
	bound := 4*max + 64<<10
	for _, e := range []*Endpoint{x.cep, x.sep} {
		if e.MaxReadBuf > bound {
			x.viol("byz-memory", fmt.Sprintf("reader offered a %s buffer to the transport with maximum %d", sizeClass(e.MaxReadBuf), max), fmt.Sprintf("%d > %d", e.MaxReadBuf, bound))
		}
	}
}

// checkByzFlood: a peer that sends far more than the configured maximum as ONE
// never-finished packet must be cut off: the receiving side ends the connection
// (unless its reader is not reading at all, parked behind an unread message).
func (x *e1) checkByzFlood(b *byzProxy) {
	for from, n := range b.flooded {
		role, reader := "server", "srv.manageReader"
		closed := x.serveDone || x.sep.IsClosed()
		if from == x.sep {
			role, reader = "client", "cli.manageReader"
			closed = x.conn == nil || connClosed(x.conn)
		}
		w := x.whereRole(reader)
		// judged only when the reader has taken everything off the transport and waits
		// for more; a reader parked elsewhere (behind an unread message, or handing an
		// invoke to a stream creation nobody performs) has not consumed the flood
		if !closed && w == "net.read" {
			x.viol("byz-memory", fmt.Sprintf("the %s kept its connection open after the peer sent one unfinished packet of many times the maximum (reader@%s)", role, w), fmt.Sprintf("%d bytes, maximum %d", n, x.prog.Cfg.ReaderMax))
		}
	}
}

func sizeClass(n int) string {
	switch {
	case n > 64<<20:
		return ">64MiB"
	case n > 16<<20:
		return ">16MiB"
	case n > 1<<20:
		return ">1MiB"
	}
	return ">256KiB"
}

// checkFaultContainment (C05 b, C12): after a transport fault or a close, both
// endpoints must report the connection closed, and stream contexts must be done.
func (x *e1) checkFaultContainment() {
	for _, e := range []*Endpoint{x.cep, x.sep} {
		if e != nil && e.Spinning {
			x.viol("fault-hang", "the connection's reader keeps calling Read on a transport that has failed (more than 200 calls) instead of ending the connection", e.Name)
		}
	}
	fault := x.ioFired()
	closed := x.closeStep > 0 || x.transportClosedByHarness()
	if !fault && !closed {
		return
	}
	if x.conn == nil {
		return
	}
	_, lateServe := x.did["serve-cancel"]
	_, trClose := x.did["tr-close"]
	// if only the server's endpoint failed and the server cannot notice (its reader is
	// parked behind an unread message), nothing tells the client either
	blindOnly := x.blindOnly()
	if (fault || x.closeStep > 0 || trClose || !lateServe) && !blindOnly {
		if !connClosed(x.conn) {
			o := "fault-closed"
			if !fault {
				o = "close-hang"
			}
			x.viol(o, "client connection does not report closed after the transport failed or was closed", strings.Join(x.libCensus(), " "))
		}
	}
	if !x.prog.Cfg.Serve && !x.serveDone && !x.serverBlind() {
		o := "fault-closed"
		if !fault {
			o = "close-hang"
		}
		x.viol(o, "ServeOne has not returned after the transport failed or was closed; srv.manageStreams@"+x.whereRole("srv.manageStreams")+" srv.serveone@"+x.whereRole("srv.serveone"), strings.Join(x.libCensus(), " "))
	}
	if x.closeCalls > x.closeDone {
		x.viol("close-hang", "Conn.Close did not return", strings.Join(x.libCensus(), " "))
	}
	// contexts of streams that existed must be done once the connection is gone
	for _, r := range x.recs {
		if r.C.st != nil && connClosed(x.conn) {
			select {
			case <-r.C.st.Context().Done():
			default:
				x.viol("close-ctx", "client stream context not done although the connection is closed", fmt.Sprintf("rpc%d", r.Spec.Idx))
			}
		}
		if r.H.st != nil && x.serveDone && !x.serverBlind() {
			select {
			case <-r.H.st.Context().Done():
			default:
				x.viol("close-ctx", "handler stream context not done although the server side is closed", fmt.Sprintf("rpc%d", r.Spec.Idx))
			}
		}
	}
	if x.probeRec.InvokeDone && x.probeRec.InvokeErr == nil && x.probeStart > 0 && x.faultBefore(x.probeStart) {
		o := "fault-newstream"
		if !fault {
			o = "close-later-op"
		}
		x.viol(o, "an rpc issued after the connection failed or was closed succeeded", "")
	}
}

// errConsumed reports whether the error packet the server wrote for rpc r has been
// read completely by the client's connection reader.
func (x *e1) errConsumed(r *rpcRec) bool {
	want := wantErrText(r.Spec.HErr)
	for _, p := range x.monS.Packets {
		// (texts are not unique any more: the shared sentinel; match the stream too)
		if p.Kind == kError && len(p.Data) >= 8 && string(p.Data[8:]) == want && (x.sidOf(r) == 0 || p.Stream == x.sidOf(r)) {
			return x.cep.Delivered >= p.EndOff
		}
	}
	return false
}

// checkServerDropped (C02): with a soft-cancelling client, no transport fault, no
// close, no timeout and no hostile input, nothing a client does on one rpc may make
// the SERVER end the connection (that would fail every later rpc).
func (x *e1) checkServerDropped() {
	// an inactivity timeout counts the time the server WAITS for the next rpc: it
	// cannot expire earlier than that long after the last handler returned
	if t := x.prog.Cfg.Inactivity; t > 0 && x.serveDone && !x.prog.Cfg.Serve && x.pooled == nil && errors.Is(x.serveErr, context.DeadlineExceeded) && x.serveSim-x.lastHRetSim < t {
		x.viol("server-dropped", "the server's inactivity timeout ended the connection before that much idle time had passed since the last handler returned", fmt.Sprintf("timeout=%s idle=%s", t, x.serveSim-x.lastHRetSim))
	}
	if !x.serveDone || x.serveStep == 0 || x.phase == "q4" || x.pooled != nil {
		return
	}
	if !x.prog.Cfg.SoftC || x.prog.Cfg.Serve || x.prog.Cfg.Inactivity > 0 || x.byz || x.ioFired() || x.transportClosedByHarness() || x.closeStep > 0 {
		return
	}
	if x.cep.IsClosed() && (!x.sep.IsClosed() || x.cep.ClosedAt <= x.sep.ClosedAt) {
		return // the client side ended the connection first (e.g. a busy soft cancel falls back to closing)
	}
	cls := "nil"
	if x.serveErr != nil {
		cls = errClass(x.serveErr)
		if strings.Contains(x.serveErr.Error(), "protocol error") {
			cls = "protocol"
		}
	}
	x.viol("server-dropped", "server ended the connection although the client only made calls and soft cancels: serve-error-class="+cls, errStr(x.serveErr))
}

func errFamily(e ErrSpec) string {
	if e.Style == 3 {
		return "wraps-io.EOF"
	}
	return "plain"
}

// clientEndedBefore: the client's side of rpc r had ended (script finished, closed)
// before the handler returned, so the server's SendError may legitimately be a no-op.
func (x *e1) clientEndedBefore(r *rpcRec) bool {
	return r.ClientDone && r.ClientDoneStep <= r.HRetStep
}

// serverMovedOn: the server finished handling rpc r (its SendError/CloseSend call
// returned): it started another handler, returned, or is waiting for the next invoke.
func (x *e1) serverMovedOn(r *rpcRec) bool {
	for _, o := range append(append([]*rpcRec{}, x.recs...), x.probeRec) {
		if o != r && o.HStarted && o.HStartStep > r.HRetStep {
			return true
		}
	}
	if x.serveDone {
		return true
	}
	w := x.whereRole("srv.serveone")
	return w == "NewServerStream" || w == "acquireSemaphore"
}

// wantErrText: the text the client must see for a handler error (computed without
// touching the shared sentinel).
func wantErrText(e ErrSpec) string {
	if e.Style == 6 {
		return e.Msg
	}
	if e.Style >= 4 {
		return sentinelText
	}
	return buildErr(e).Error()
}

// checkArrivedNotReceived (C01): at quiescence a receive must not stay blocked
// while complete messages of its stream have already been read off the transport
// by its own side's reader (every byte of their last frame was returned by Read).
// Only judged on an undisturbed wire: no proxy rewriting bytes, no fault, no stall.
func (x *e1) checkArrivedNotReceived(calls []blockedCall) {
	if x.net.Mutate != nil || x.ioFired() || x.transportClosedByHarness() || x.closeStep > 0 || len(x.stalled) > 0 || x.pooled != nil || x.conn == nil {
		return
	}
	for _, c := range calls {
		if apiVerb(c.API) != "MsgRecv" && apiVerb(c.API) != "c.MsgRecv" && apiVerb(c.API) != "h.MsgRecv" {
			continue
		}
		if whereClass(c.Where) != "cond:Get" {
			continue
		}
		k := apiRPC(c.API)
		var r *rpcRec
		for _, o := range x.recs {
			if o.Spec.Idx == k {
				r = o
			}
		}
		if r == nil || r.SID == 0 || r.Cancelled {
			continue
		}
		// receiver side, sender's wire, receiver's endpoint
		rcv, mon, ep := r.C, x.monS, x.cep
		if strings.HasPrefix(c.API, "h.") {
			rcv, mon, ep = r.H, x.monC, x.sep
		}
		if rcv == nil {
			continue
		}
		arrived := 0
		for _, p := range mon.Packets {
			if p.Kind == kMessage && p.Stream == r.SID && p.EndOff <= ep.Delivered {
				arrived++
			}
		}
		got := 0
		for _, rr := range rcv.Recvs {
			got++
			_ = rr
		}
		if arrived > got {
			x.viol("delivery", "arrived-not-received: a receive is blocked for ever although a complete message of its stream has been read off the transport", fmt.Sprintf("rpc%d %s arrived=%d received=%d", k, c.API, arrived, got))
		}
	}
}

func handlerHalfCloses(spec *RPCSpec) bool {
	for _, o := range spec.HOps {
		if o.Kind == OpCloseSend {
			return true
		}
	}
	return false
}

// firstRecvErrStep: the step at which a receive of this side first returned an error.
func firstRecvErrStep(sd *sideRec) int {
	for _, rr := range sd.Recvs {
		if rr.Err != nil {
			return rr.Step
		}
	}
	return 1 << 30
}

// sidOf: the stream id rpc r used (for unary calls taken from the invoke packet on
// the client's wire, which carries the rpc's name).
func (x *e1) sidOf(r *rpcRec) uint64 {
	if r.SID != 0 {
		return r.SID
	}
	suffix := fmt.Sprintf("/%d", r.Spec.Idx)
	for _, p := range x.monC.Packets {
		if p.Kind == kInvoke && strings.HasPrefix(string(p.Data), "/sim/") && strings.HasSuffix(string(p.Data), suffix) {
			return p.Stream
		}
	}
	return 0
}
