package sim

import (
	"bufio"
	"encoding/json"
	"fmt"
	"os"
	"runtime"
	"runtime/debug"
	"strconv"
	"sync/atomic"
	"strings"
	"testing"
	"testing/synctest"
	"time"
)

// WorkerArgs is the job description handed to a worker process in the
// environment variable VERIF_WORKER.
type WorkerArgs struct {
	Spec   RunSpec `json:"spec"`
	From   uint64  `json:"from"`
	To     uint64  `json:"to"`     // exclusive
	Stride uint64  `json:"stride"` // index step (workers interleave)
	Out    string  `json:"out"`
	Full   bool    `json:"full"`    // emit full results (lines, tapes, desc) for every run
	Samples int    `json:"samples"` // number of runs for which full detail is kept
	Resample int   `json:"resample"` // every Resample-th run is executed twice to compare hashes
	DeadlineS int  `json:"deadline_s"`
	Enumerate string `json:"enumerate,omitempty"`
	Serve     bool   `json:"serve,omitempty"`
	VarMod    int    `json:"var_mod,omitempty"` // enumerate: this worker runs variants with number % VarMod == VarRem
	VarRem    int    `json:"var_rem,omitempty"`
}

// memory guard: the sandbox has no memory limit, and code under test that spins
// or allocates without reaching a scheduling point is not bounded by the
// director's step budget. A real-time watchdog outside the bubbles ends the
// worker (exit 3 = infrastructure, never a violation) and names the run.
var curRun atomic.Uint64
var curStart atomic.Int64
var curSpec atomic.Value // RunSpec of the run in progress (dumped by the watchdog)

func dumpCurSpec() {
	if d := os.Getenv("VERIF_WATCHDOG_DUMP"); d != "" {
		if sp, ok := curSpec.Load().(RunSpec); ok {
			b, _ := json.Marshal(sp)
			_ = os.WriteFile(d, b, 0o644)
		}
	}
}

func startWatchdog() {
	limitMB := 4096
	if v, err := strconv.Atoi(os.Getenv("VERIF_MEM_MB")); err == nil && v > 0 {
		limitMB = v
	}
	maxRunS := 120
	if v, err := strconv.Atoi(os.Getenv("VERIF_RUN_S")); err == nil && v > 0 {
		maxRunS = v
	}
	go func() {
		var ms runtime.MemStats
		for {
			time.Sleep(500 * time.Millisecond)
			runtime.ReadMemStats(&ms)
			if ms.HeapAlloc > uint64(limitMB)<<20 {
				fmt.Fprintf(os.Stderr, "WATCHDOG: worker heap %d MiB exceeds %d MiB during run index=%d\n", ms.HeapAlloc>>20, limitMB, curRun.Load())
				dumpCurSpec()
				os.Exit(3)
			}
			if st := curStart.Load(); st != 0 && time.Now().UnixNano()-st > int64(maxRunS)*1e9 {
				fmt.Fprintf(os.Stderr, "WATCHDOG: run index=%d did not finish within %d s of real time\n", curRun.Load(), maxRunS)
				dumpCurSpec()
				os.Exit(3)
			}
		}
	}()
}

// runOne executes one run in a fresh synctest bubble.
func runOne(t *testing.T, spec RunSpec) (res *RunResult) {
	curRun.Store(spec.Index)
	curSpec.Store(spec)
	curStart.Store(time.Now().UnixNano())
	defer curStart.Store(0)
	var ch *Choices
	if spec.Replay {
		ch = NewReplayChoices(spec.Seed, spec.Index, spec.Tapes)
	} else {
		ch = NewChoices(spec.Seed, spec.Index)
	}
	defer func() {
		if r := recover(); r != nil {
			msg := fmt.Sprint(r)
			if res != nil && strings.Contains(msg, "deadlock: main bubble goroutine has exited") {
				// leaked, durably blocked goroutines of the run: expected for
				// runs that end with blocked tasks
				return
			}
			if res == nil {
				res = &RunResult{Index: spec.Index, Seed: spec.Seed}
			}
			res.Infra = "panic in run: " + msg + "\n" + string(debug.Stack())
		}
	}()
	synctest.Test(t, func(t *testing.T) {
		res = dispatch(spec, ch)
	})
	return res
}

func dispatch(spec RunSpec, ch *Choices) *RunResult {
	var res *RunResult
	switch spec.Engine {
	case "rpc-sim":
		res = runE1(spec, ch)
	default:
		if f, ok := engines[spec.Engine]; ok {
			res = f(spec, ch)
		} else {
			return &RunResult{Index: spec.Index, Seed: spec.Seed, Infra: "unknown engine " + spec.Engine}
		}
	}
	res.Tapes = ch.Tapes()
	return res
}

var engines = map[string]func(RunSpec, *Choices) *RunResult{}

func TestSim(t *testing.T) {
	raw := os.Getenv("VERIF_WORKER")
	if raw == "" {
		t.Skip("VERIF_WORKER not set")
	}
	var wa WorkerArgs
	if err := json.Unmarshal([]byte(raw), &wa); err != nil {
		t.Fatalf("bad VERIF_WORKER: %v", err)
	}
	startWatchdog()
	if wa.Serve {
		serve(t)
		return
	}
	f, err := os.Create(wa.Out)
	if err != nil {
		t.Fatal(err)
	}
	defer f.Close()
	w := bufio.NewWriterSize(f, 1<<20)
	defer w.Flush()
	enc := json.NewEncoder(w)
	if wa.Stride == 0 {
		wa.Stride = 1
	}
	start := time.Now()
	n := 0
	for i := wa.From; i < wa.To; i += wa.Stride {
		if wa.DeadlineS > 0 && time.Since(start) > time.Duration(wa.DeadlineS)*time.Second {
			break
		}
		spec := wa.Spec
		spec.Index = i
		if wa.Enumerate != "" && !spec.Replay {
			enumerate(t, wa, spec, func(res *RunResult) {
				res.StateSet = nil
				if len(res.Viol) == 0 && res.Infra == "" && n >= wa.Samples {
					res.Lines, res.Tapes, res.Desc, res.Decisions = nil, nil, nil, nil
				}
				if err := enc.Encode(res); err != nil {
					t.Fatal(err)
				}
				n++
			})
			continue
		}
		res := runOne(t, spec)
		if wa.Resample > 0 && n%wa.Resample == 0 && res.Infra == "" {
			res2 := runOne(t, spec)
			if res2.Hash != res.Hash {
				res.Infra = fmt.Sprintf("determinism mismatch: %s vs %s", res.Hash, res2.Hash)
			} else {
				res.probe("determinism_resample_ok")
			}
		}
		full := wa.Full || n < wa.Samples || len(res.Viol) > 0 || res.Infra != ""
		if !full {
			res.Lines, res.Tapes, res.Desc, res.Decisions = nil, nil, nil, nil
		}
		if i%8 == 0 {
			res.StateHashes = res.StateSet
		}
		res.StateSet = nil
		if err := enc.Encode(res); err != nil {
			t.Fatal(err)
		}
		n++
	}
}

// serve executes specs read from stdin (one JSON object per line) and answers
// each with one "@@RES {json}" line on stdout. Used by the minimiser.
func serve(t *testing.T) {
	sc := bufio.NewScanner(os.Stdin)
	sc.Buffer(make([]byte, 1<<20), 64<<20)
	out := bufio.NewWriter(os.Stdout)
	for sc.Scan() {
		var spec RunSpec
		if err := json.Unmarshal(sc.Bytes(), &spec); err != nil {
			fmt.Fprintf(out, "@@RES {\"infra\":%q}\n", err.Error())
			out.Flush()
			continue
		}
		res := runOne(t, spec)
		res.StateSet = nil
		if !spec.Verbose {
			res.Lines = nil
		}
		b, _ := json.Marshal(res)
		out.WriteString("@@RES ")
		out.Write(b)
		out.WriteByte('\n')
		out.Flush()
	}
}

// enumerate is replaced by engines that support fault enumeration.
var enumerators = map[string]func(t *testing.T, wa WorkerArgs, spec RunSpec, emit func(*RunResult)){}

func enumerate(t *testing.T, wa WorkerArgs, spec RunSpec, emit func(*RunResult)) {
	if f, ok := enumerators[wa.Enumerate]; ok {
		f(t, wa, spec, emit)
		return
	}
	emit(&RunResult{Index: spec.Index, Seed: spec.Seed, Infra: "unknown enumerator " + wa.Enumerate})
}
