package sim

import (
	"fmt"
	"testing"
)

func init() {
	enumerators["io-faults"] = enumIOFaults
	enumerators["close-steps"] = enumCloseSteps
}

// enumIOFaults (C05): run the fault-free twin, then fail every transport call k of
// either endpoint in each of the fault kinds.
func enumIOFaults(t *testing.T, wa WorkerArgs, spec RunSpec, emit func(*RunResult)) {
	twin := runOne(t, spec)
	twin.probe("twin_runs")
	mine := func(n int) bool { return wa.VarMod <= 1 || n%wa.VarMod == wa.VarRem }
	if mine(0) {
		emit(twin)
	}
	if twin.Infra != "" || twin.Inconcl {
		return
	}
	kinds := []string{"read-err", "read-err-data", "write-err", "peer-close", "local-close"}
	vn := 0
	for _, ep := range []string{"client", "server"} {
		ops := twin.Probes["ops_"+ep]
		for k := 1; k <= ops; k++ {
			for ki, kind := range kinds {
				vn++
				if !mine(vn) {
					continue
				}
				s := spec
				s.Params = map[string]string{"plan": fmt.Sprintf("%s:%d:%s:%d", ep, k, kind, (k*7+ki*3)%23)}
				emit(runOne(t, s))
			}
		}
	}
}

// enumCloseSteps (C12): run the close-free twin, then inject a close / cancel at
// director step s for every s (quick tier: every 3rd step).
func enumCloseSteps(t *testing.T, wa WorkerArgs, spec RunSpec, emit func(*RunResult)) {
	twin := runOne(t, spec)
	twin.probe("twin_runs")
	mine := func(n int) bool { return wa.VarMod <= 1 || n%wa.VarMod == wa.VarRem }
	if mine(0) {
		emit(twin)
	}
	if twin.Infra != "" || twin.Inconcl {
		return
	}
	kinds := []string{"close-client-conn", "cancel-serve", "close-client-conn-concurrent", "close-server-tr", "close-client-tr", "listener-error", "bad-metadata"}
	stride := 3
	if spec.Tier == "thorough" {
		stride = 1
	}
	n := 0
	for s := 1; s <= twin.Steps; s += stride {
		kind := kinds[n%len(kinds)]
		n++
		if !mine(n) {
			continue
		}
		sp := spec
		sp.Params = map[string]string{"plan": fmt.Sprintf("step:%d:%s", s, kind)}
		emit(runOne(t, sp))
		if spec.Tier == "thorough" {
			kind2 := kinds[(n+2)%len(kinds)]
			sp.Params = map[string]string{"plan": fmt.Sprintf("step:%d:%s", s, kind2)}
			emit(runOne(t, sp))
		}
	}
}
