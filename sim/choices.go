package sim

import (
	"hash/fnv"
	"sync"
)

// Rand is splitmix64: own implementation so streams never depend on the Go
// release.
type Rand struct{ s uint64 }

func NewRand(seed uint64) *Rand { return &Rand{s: seed} }

func (r *Rand) Uint64() uint64 {
	r.s += 0x9e3779b97f4a7c15
	z := r.s
	z = (z ^ (z >> 30)) * 0xbf58476d1ce4e5b9
	z = (z ^ (z >> 27)) * 0x94d049bb133111eb
	return z ^ (z >> 31)
}

func (r *Rand) Intn(n int) int {
	if n <= 1 {
		return 0
	}
	return int(r.Uint64() % uint64(n))
}

func (r *Rand) Float() float64 { return float64(r.Uint64()>>11) / (1 << 53) }

func (r *Rand) Chance(p float64) bool { return r.Float() < p }

func mix(a, b uint64) uint64 {
	x := a ^ (b+0x9e3779b97f4a7c15)*0xbf58476d1ce4e5b9
	x ^= x >> 29
	x *= 0x94d049bb133111eb
	x ^= x >> 32
	return x
}

func hashStr(s string) uint64 {
	h := fnv.New64a()
	h.Write([]byte(s))
	return h.Sum64()
}

// Choices is the single source of every decision of a run: one named tape of
// small integers per decision stream ("prog", "sched", "net", "sel:<task>").
// In seeded mode values come from per-stream generators derived from
// (seed, index) and are recorded; in replay mode they are read back from the
// recorded tapes (0 once a tape is exhausted — 0 is always the "simplest"
// alternative at every draw site).
type Choices struct {
	mu     sync.Mutex
	Seed   uint64
	Index  uint64
	Replay bool
	In     map[string][]uint32 // replay input
	Out    map[string][]uint32 // what was actually used (both modes)
	pos    map[string]int
	rngs   map[string]*Rand
	Draws  int
}

func NewChoices(seed, index uint64) *Choices {
	return &Choices{Seed: seed, Index: index, Out: map[string][]uint32{}, pos: map[string]int{}, rngs: map[string]*Rand{}}
}

func NewReplayChoices(seed, index uint64, tapes map[string][]uint32) *Choices {
	c := NewChoices(seed, index)
	c.Replay = true
	c.In = tapes
	return c
}

func (c *Choices) rng(stream string) *Rand {
	r := c.rngs[stream]
	if r == nil {
		r = NewRand(mix(mix(c.Seed, c.Index), hashStr(stream)))
		c.rngs[stream] = r
	}
	return r
}

// Draw returns a value in [0,n). gen, if non-nil, produces the value in seeded
// mode (it may implement any bias or policy); otherwise it is uniform.
func (c *Choices) Draw(stream string, n int, gen func(r *Rand) int) int {
	if n <= 1 {
		return 0
	}
	c.mu.Lock()
	defer c.mu.Unlock()
	c.Draws++
	var v int
	if c.Replay {
		p := c.pos[stream]
		c.pos[stream] = p + 1
		if t := c.In[stream]; p < len(t) {
			v = int(t[p]) % n
		}
	} else {
		r := c.rng(stream)
		if gen != nil {
			v = gen(r)
			if v < 0 || v >= n {
				v = 0
			}
		} else {
			v = r.Intn(n)
		}
	}
	c.Out[stream] = append(c.Out[stream], uint32(v))
	return v
}

// Bool draws a boolean that is true with probability p in seeded mode; false
// is the default (0).
func (c *Choices) Bool(stream string, p float64) bool {
	v := c.Draw(stream, 2, func(r *Rand) int {
		if r.Chance(p) {
			return 1
		}
		return 0
	}) == 1
	// (a replayed tape cannot choose what the generator could not have chosen)
	switch {
	case p <= 0:
		return false
	case p >= 1:
		return true
	}
	return v
}

// Pick draws an index into a list of n alternatives, uniformly.
func (c *Choices) Pick(stream string, n int) int { return c.Draw(stream, n, nil) }

// Weighted draws index i with probability weights[i]/sum.
func (c *Choices) Weighted(stream string, weights []int) int {
	v := c.weighted(stream, weights)
	// a replayed (minimised) tape may name an alternative whose weight is zero in
	// this configuration: such a run could never have been generated, so fall
	// back to the first possible alternative
	if v < len(weights) && weights[v] <= 0 {
		for i, w := range weights {
			if w > 0 {
				return i
			}
		}
		return 0
	}
	return v
}

func (c *Choices) weighted(stream string, weights []int) int {
	return c.Draw(stream, len(weights), func(r *Rand) int {
		sum := 0
		for _, w := range weights {
			sum += w
		}
		if sum <= 0 {
			return 0
		}
		x := r.Intn(sum)
		for i, w := range weights {
			if x < w {
				return i
			}
			x -= w
		}
		return 0
	})
}

// Tapes returns the used tapes with trailing zeros trimmed.
func (c *Choices) Tapes() map[string][]uint32 {
	c.mu.Lock()
	defer c.mu.Unlock()
	out := map[string][]uint32{}
	for k, t := range c.Out {
		n := len(t)
		for n > 0 && t[n-1] == 0 {
			n--
		}
		if n > 0 {
			out[k] = append([]uint32(nil), t[:n]...)
		}
	}
	return out
}
