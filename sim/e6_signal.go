package sim

import (
	"errors"
	"fmt"
	"sort"
	"strings"

	"github.com/anishathalye/porcupine"

	"storj.io/drpc/drpcsignal"
	"storj.io/drpc/verifsim"
)

func init() { engines["signal-sim"] = runE6 }

// ---- operations -----------------------------------------------------------------------

type sigIn struct {
	Op  string // set get err isset probe wait
	Arg int    // error index for set (0 = nil error)
}

type sigOut struct {
	OK     bool // set: won; get: valid; isset; probe: closed
	ErrIdx int  // get/err: which error (-1 none/unset, 0 nil, >0 error i)
}

type sigState struct {
	Set bool
	Err int
}

var sigErrs = []error{nil, errors.New("e1"), errors.New("e2"), errors.New("e3"), errors.New("e4")}

func errIndex(err error) int {
	for i, e := range sigErrs {
		if err == e {
			return i
		}
	}
	return -2
}

// sigModel is the sequential write-once register the signal must linearize to.
var sigModel = porcupine.Model{
	Init: func() interface{} { return sigState{} },
	Step: func(state, input, output interface{}) (bool, interface{}) {
		st := state.(sigState)
		in := input.(sigIn)
		out := output.(sigOut)
		switch in.Op {
		case "set":
			if !st.Set {
				return out.OK, sigState{Set: true, Err: in.Arg}
			}
			return !out.OK, st
		case "get":
			if st.Set {
				return out.OK && out.ErrIdx == st.Err, st
			}
			return !out.OK && out.ErrIdx == 0, st
		case "err":
			if st.Set {
				return out.ErrIdx == st.Err, st
			}
			return out.ErrIdx == 0, st
		case "isset":
			return out.OK == st.Set, st
		case "probe":
			// closed implies set; "not closed" is transiently legal while the
			// winning Set is still running (checked separately at its return)
			if out.OK {
				return st.Set, st
			}
			return true, st
		case "wait":
			return st.Set, st
		}
		return false, st
	},
	DescribeOperation: func(input, output interface{}) string {
		return fmt.Sprintf("%v -> %v", input, output)
	},
}

type e6 struct {
	spec RunSpec
	res  *RunResult
	ch   *Choices
	rt   *verifsim.Runtime
	d    *Director
	seq  int64
	ops  []porcupine.Operation
	sig  *drpcsignal.Signal
	chans []chan struct{}
	winnerReturned bool
	anySetReturned bool
}

func (x *e6) viol(oracle, sig, detail string) {
	x.d.Logf("  VIOL %s %s", oracle, sig)
	for _, v := range x.res.Viol {
		if v.Sig == sig {
			return
		}
	}
	x.res.Viol = append(x.res.Viol, Violation{Prop: x.spec.Prop, Oracle: oracle, Sig: sig, Detail: detail, Step: x.d.Step})
}

func (x *e6) stamp() int64 { x.seq++; return x.seq }

func chClosed(c chan struct{}) bool {
	select {
	case <-c:
		return true
	default:
		return false
	}
}

func (x *e6) doSigOp(client int, in sigIn) {
	verifsim.Yield(verifsim.ClassApp, "op "+in.Op)
	call := x.stamp()
	var out sigOut
	switch in.Op {
	case "set":
		out.OK = x.sig.Set(sigErrs[in.Arg])
		x.anySetReturned = true
		if out.OK {
			x.winnerReturned = true
			// the notification channel must be closed once the winning Set returned
			if !chClosed(x.sig.Signal()) {
				x.viol("signal", "winning Set returned but the notification channel is not closed", "")
			}
		}
	case "get":
		err, ok := x.sig.Get()
		out.OK, out.ErrIdx = ok, errIndex(err)
	case "err":
		out.ErrIdx = errIndex(x.sig.Err())
	case "isset":
		out.OK = x.sig.IsSet()
	case "probe":
		c := x.sig.Signal()
		x.chans = append(x.chans, c)
		out.OK = chClosed(c)
		if out.OK {
			// closed => the value is visible
			if err, ok := x.sig.Get(); !ok {
				x.viol("signal", "notification channel closed before the value is visible (Get invalid)", "")
			} else {
				_ = err
			}
			if !x.sig.IsSet() {
				x.viol("signal", "notification channel closed before the value is visible (IsSet false)", "")
			}
		}
	case "wait":
		verifsim.Mark("harness:wait")
		x.sig.Wait()
		verifsim.Yield(verifsim.ClassWake, "harness:wait")
		if !x.sig.IsSet() {
			x.viol("signal", "Wait returned although the signal is not set", "")
		}
	}
	ret := x.stamp()
	x.ops = append(x.ops, porcupine.Operation{ClientId: client, Input: in, Call: call, Output: out, Return: ret})
	x.d.Logf("  op c%d %v -> %v [%d,%d]", client, in, out, call, ret)
}

func runE6(spec RunSpec, ch *Choices) *RunResult {
	res := &RunResult{Index: spec.Index, Seed: spec.Seed, Engine: "signal-sim", Mode: spec.Prop}
	x := &e6{spec: spec, res: res, ch: ch}
	classes := verifsim.ClassStmt
	if ch.Bool("cfg", 0.5) {
		classes |= verifsim.ClassLock
	}
	x.rt = verifsim.New(classes)
	x.rt.SelectChoice = func(t *verifsim.Task, k int, n uint32) uint32 { return uint32(ch.Draw("sel:"+t.Name, int(n), nil)) }
	verifsim.Attach(x.rt)
	defer verifsim.Detach()
	x.d = NewDirector(x.rt, ch, 4000)
	x.d.Verbose = spec.Verbose
	x.d.DrawPolicy()
	scenario := ch.Weighted("cfg", []int{6, 3})
	x.d.Logf("RUN seed=%d index=%d engine=signal-sim scenario=%d policy=%s", spec.Seed, spec.Index, scenario, policyNames[x.d.Policy])
	var desc []string
	if scenario == 0 {
		x.sig = new(drpcsignal.Signal)
		ntasks := 2 + ch.Pick("cfg", 3)
		for c := 0; c < ntasks; c++ {
			c := c
			st := fmt.Sprintf("task%d", c)
			nops := 1 + ch.Pick(st, 3)
			var prog []sigIn
			for i := 0; i < nops; i++ {
				var in sigIn
				switch ch.Weighted(st, []int{4, 3, 2, 2, 3, 1}) {
				case 0:
					in = sigIn{Op: "set", Arg: 1 + c} // distinct error per task
					if ch.Bool(st, 0.2) {
						in.Arg = 0 // nil error
					}
				case 1:
					in = sigIn{Op: "get"}
				case 2:
					in = sigIn{Op: "err"}
				case 3:
					in = sigIn{Op: "isset"}
				case 4:
					in = sigIn{Op: "probe"}
				case 5:
					in = sigIn{Op: "wait"}
				}
				prog = append(prog, in)
			}
			desc = append(desc, fmt.Sprintf("c%d%v", c, prog))
			x.rt.Spawn(fmt.Sprintf("c%d", c), func() {
				for _, in := range prog {
					x.doSigOp(c, in)
				}
			})
		}
	} else {
		desc = x.chanScenario()
	}
	res.Desc = desc
	for _, l := range desc {
		x.d.Logf("  %s", l)
	}
	q := x.d.Run()
	for _, t := range x.rt.Tasks() {
		if t.Panic != nil {
			x.viol("panic", "panic: "+trunc(fmt.Sprint(t.Panic), 80), t.Name+"\n"+t.Stack)
		}
	}
	if !q {
		res.Inconcl = true
	} else if scenario != 0 {
		var blocked []string
		for _, t := range x.rt.Tasks() {
			if t.State != verifsim.StExited {
				blocked = append(blocked, t.Name+"@"+whereClass(t.Label))
			}
		}
		if len(blocked) > 0 {
			x.viol("chan", "task blocked for ever in a lazy-channel scenario in which every operation is matched: "+strings.Join(stripNumsAll(blocked), " "), strings.Join(blocked, " "))
		}
	} else if scenario == 0 {
		// all Signal() results are the same channel
		for _, c := range x.chans {
			if c != x.chans[0] {
				x.viol("signal", "Signal() returned different channels to different callers", "")
			}
		}
		// lost wake-up: a waiter still blocked although a Set returned
		var blocked []string
		for _, t := range x.rt.Tasks() {
			if t.State != verifsim.StExited {
				blocked = append(blocked, t.Name+"@"+t.Label)
			}
		}
		setIssued := false
		for _, l := range desc {
			if strings.Contains(l, "set") {
				setIssued = true
			}
		}
		if len(blocked) > 0 && x.anySetReturned {
			x.viol("signal", "waiter blocked for ever although a Set returned (lost wake-up)", strings.Join(blocked, " "))
		}
		_ = setIssued
		// linearizability of the completed operations against the write-once register
		if len(x.ops) > 0 {
			verifsim.Detach()
			r := porcupine.CheckOperations(sigModel, x.ops)
			if !r {
				var hs []string
				for _, o := range x.ops {
					hs = append(hs, fmt.Sprintf("c%d %v->%v [%d,%d]", o.ClientId, o.Input, o.Output, o.Call, o.Return))
				}
				sort.Strings(hs)
				x.viol("linearizability", "history of Set/Get/Err/IsSet/Signal/Wait is not linearizable to a write-once register: "+x.classifyHistory(), strings.Join(hs, "; "))
			}
		}
	}
	res.Hash = x.d.LogHash()
	res.Steps = x.d.Step
	res.States = len(x.d.States)
	for s := range x.d.States {
		res.StateSet = append(res.StateSet, s)
	}
	res.Preempt = x.d.Preempt
	res.Lines = x.d.Lines
	res.Decisions = x.d.Decisions
	res.Draws = ch.Draws
	res.Nontrivial = x.d.Preempt > 0 && len(x.ops)+len(desc) > 1
	return res
}

// classifyHistory gives a schedule independent summary: which kinds of observer
// disagree with the winner.
func (x *e6) classifyHistory() string {
	winner := -2
	for _, o := range x.ops {
		if in := o.Input.(sigIn); in.Op == "set" && o.Output.(sigOut).OK {
			if winner != -2 {
				return "two setters won"
			}
			winner = in.Arg
		}
	}
	kinds := map[string]bool{}
	for _, o := range x.ops {
		in, out := o.Input.(sigIn), o.Output.(sigOut)
		switch in.Op {
		case "get":
			if out.OK && out.ErrIdx != winner {
				kinds["get-saw-non-winner"] = true
			}
		case "err":
			if out.ErrIdx > 0 && out.ErrIdx != winner {
				kinds["err-saw-non-winner"] = true
			}
		}
	}
	if winner == -2 {
		kinds["no-winner"] = true
	}
	if len(kinds) == 0 {
		return "ordering"
	}
	return strings.Join(sortedKeys(kinds), ",")
}

// ---- lazy channel scenarios -----------------------------------------------------------

func (x *e6) chanScenario() []string {
	ch := x.ch
	c := new(drpcsignal.Chan)
	var desc []string
	var got []chan struct{}
	closeReturned := false
	if ch.Bool("cfg", 0.5) {
		// close scenario: optional Make, one Close, several Get observers
		mk := ch.Bool("cfg", 0.5)
		n := 1 + ch.Pick("cfg", 3)
		desc = append(desc, fmt.Sprintf("chan close scenario make=%v getters=%d", mk, n))
		if mk {
			x.rt.Spawn("maker", func() {
				verifsim.Yield(verifsim.ClassApp, "make")
				c.Make(uint(ch.Pick("cfg", 2)))
			})
		}
		x.rt.Spawn("closer", func() {
			verifsim.Yield(verifsim.ClassApp, "close")
			c.Close()
			closeReturned = true
		})
		for i := 0; i < n; i++ {
			x.rt.Spawn(fmt.Sprintf("getter%d", i), func() {
				for k := 0; k < 2; k++ {
					verifsim.Yield(verifsim.ClassApp, "get")
					was := closeReturned
					g := c.Get()
					got = append(got, g)
					if was && !chClosed(g) {
						x.viol("chan", "Get after Close returned yields a channel that is not closed", "")
					}
				}
			})
		}
		x.d.AfterStep = func() bool { return false }
		prevRun := x.d
		_ = prevRun
		x.rt.Spawn("final", func() {
			// runs whenever scheduled; its check is only meaningful once Close returned
			for i := 0; i < 3; i++ {
				verifsim.Yield(verifsim.ClassApp, "final")
			}
			if closeReturned {
				for _, g := range got {
					if !chClosed(g) {
						x.viol("chan", "a channel handed out by Get never closes although Close returned", "")
					}
				}
			}
		})
		return desc
	}
	if ch.Bool("cfg", 0.25) {
		// a semaphore that holds its token is closed: Make(1), Send, Close; the
		// channel must be closed afterwards (the buffered token may still be read
		// first), whatever observers do meanwhile
		n := ch.Pick("cfg", 3)
		desc = append(desc, fmt.Sprintf("chan close-with-token scenario getters=%d", n))
		x.rt.Spawn("owner", func() {
			verifsim.Yield(verifsim.ClassApp, "make")
			c.Make(1)
			// observers only exist once the capacity is fixed (whoever touches a lazy
			// channel first decides its capacity)
			for i := 0; i < n; i++ {
				x.rt.Spawn(fmt.Sprintf("getter%d", i), func() {
					verifsim.Yield(verifsim.ClassApp, "get")
					got = append(got, c.Get())
				})
			}
			verifsim.Yield(verifsim.ClassApp, "send")
			c.Send()
			verifsim.Yield(verifsim.ClassApp, "close")
			c.Close()
			closeReturned = true
			g := c.Get()
			closed := false
			for i := 0; i < 3 && !closed; i++ {
				select {
				case _, ok := <-g:
					closed = !ok
				default:
					i = 3
				}
			}
			if !closed {
				x.viol("chan", "Close of a channel that holds a buffered element returned but the channel is not closed", "")
			}
		})
		x.d.AfterStep = nil
		return append(desc, "expect-all-exit")
	}
	// semaphore scenario: Make(cap), matched Send/Recv pairs, Full probes
	capn := ch.Pick("cfg", 3)
	pairs := 1 + ch.Pick("cfg", 3)
	desc = append(desc, fmt.Sprintf("chan semaphore scenario cap=%d pairs=%d", capn, pairs))
	lazy := ch.Bool("cfg", 0.5)
	if !lazy {
		c.Make(uint(capn))
	}
	sent, recvd := 0, 0
	for i := 0; i < pairs; i++ {
		x.rt.Spawn(fmt.Sprintf("sender%d", i), func() {
			verifsim.Yield(verifsim.ClassApp, "send")
			if lazy {
				c.Make(uint(capn))
			}
			c.Send()
			sent++
		})
		x.rt.Spawn(fmt.Sprintf("recver%d", i), func() {
			verifsim.Yield(verifsim.ClassApp, "recv")
			c.Recv()
			recvd++
			if recvd > sent+0 && false {
				x.viol("chan", "receive completed without a matching send", "")
			}
		})
	}
	x.rt.Spawn("prober", func() {
		for i := 0; i < 2; i++ {
			verifsim.Yield(verifsim.ClassApp, "full")
			_ = c.Full()
		}
	})
	x.rt.Spawn("final", func() {
		for i := 0; i < 2; i++ {
			verifsim.Yield(verifsim.ClassApp, "final")
		}
	})
	// at quiescence every sender and receiver must have completed: checked by the
	// caller through the blocked list (all tasks exited)
	x.d.AfterStep = nil
	return append(desc, "expect-all-exit")
}
