package sim

import (
	"context"
	"fmt"
	"strings"
	"time"

	"storj.io/drpc"
	"storj.io/drpc/drpcpool"
	"storj.io/drpc/verifsim"
)

func init() { engines["pool-sim"] = runE4 }

// fakeConn is a simulator-owned drpcpool.Conn.
type fakeConn struct {
	x         *e4
	id        int
	closedCh  chan struct{}
	closed    bool
	closedAt  int
	blockCh   chan struct{} // nil: unblocked
	blocked   bool
	blockedAt int
	unblockAt int
	closes    []string // who called Close (task role), in order
	gen       int      // number of times it was Put
	state     string   // "new", "cached", "taken", "pool-closed", "rejected"
	expFired  int      // step at which the expiry callback of the current generation started (0 = not)
	putStep   int
}

var closedChan = func() chan struct{} { c := make(chan struct{}); close(c); return c }()

func (c *fakeConn) Close() error {
	who := c.x.closerRole()
	verifsim.Yield(verifsim.ClassApp, "fake.Close")
	c.closes = append(c.closes, who)
	c.x.d.Logf("  close conn%d by %s", c.id, who)
	if who != "env" {
		c.x.poolClosed(c, who)
	}
	if !c.closed {
		c.closed, c.closedAt = true, c.x.d.Step
		close(c.closedCh)
	}
	return nil
}
func (c *fakeConn) Closed() <-chan struct{} { return c.closedCh }
func (c *fakeConn) Unblocked() <-chan struct{} {
	if c.blockCh != nil {
		return c.blockCh
	}
	return closedChan
}
func (c *fakeConn) Invoke(ctx context.Context, rpc string, enc drpc.Encoding, in, out drpc.Message) error {
	return nil
}
func (c *fakeConn) NewStream(ctx context.Context, rpc string, enc drpc.Encoding) (drpc.Stream, error) {
	return nil, nil
}

type e4 struct {
	spec  RunSpec
	res   *RunResult
	ch    *Choices
	rt    *verifsim.Runtime
	d     *Director
	pool  *drpcpool.Pool[string, *fakeConn]
	opts  drpcpool.Options
	conns []*fakeConn
	keys  []string
	poolClosedStep int
	timers    map[*verifsim.Task]timerRef
	firedSeen map[*verifsim.Task]bool
}

func (x *e4) viol(oracle, sig, detail string) {
	x.d.Logf("  VIOL %s %s", oracle, sig)
	for _, v := range x.res.Viol {
		if v.Sig == sig {
			return
		}
	}
	x.res.Viol = append(x.res.Viol, Violation{Prop: x.spec.Prop, Oracle: oracle, Sig: sig, Detail: detail, Step: x.d.Step})
}

// closerRole classifies the task that is calling fakeConn.Close.
func (x *e4) closerRole() string {
	_, t := verifsim.Current()
	if t == nil {
		return "director"
	}
	switch {
	case strings.HasPrefix(t.Name, "timer:"):
		return "expiry"
	case strings.HasPrefix(t.API, "env"):
		return "env"
	case t.API != "":
		return "pool." + apiVerb(t.API)
	}
	return "other"
}

func (x *e4) poolClosed(c *fakeConn, who string) {
	switch c.state {
	case "taken":
		x.viol("ownership", "connection handed out by Take was afterwards closed by the pool ("+who+")", fmt.Sprintf("conn%d gen%d", c.id, c.gen))
	case "pool-closed":
		x.viol("ownership", "connection closed by the pool twice for one Put ("+who+")", fmt.Sprintf("conn%d gen%d closes=%v", c.id, c.gen, c.closes))
	case "new":
		// Put with negative capacity closes the value before caching: fine
	}
	c.state = "pool-closed"
}

func (x *e4) call(desc string, f func()) {
	_, t := verifsim.Current()
	verifsim.Yield(verifsim.ClassApp, desc)
	t.SetAPI(desc)
	f()
	t.SetAPI("")
}

func (x *e4) newConn() *fakeConn {
	c := &fakeConn{x: x, id: len(x.conns), closedCh: make(chan struct{}), state: "new"}
	x.conns = append(x.conns, c)
	return c
}

type poolOp struct {
	Kind string // put, put-taken, take, env-close, env-block, env-unblock, close-pool, sleep
	Key  int
	Arg  int
}

func (o poolOp) String() string { return fmt.Sprintf("%s(k%d,%d)", o.Kind, o.Key, o.Arg) }

func (x *e4) worker(id int, ops []poolOp) {
	var mine []*fakeConn // conns this worker took
	for _, op := range ops {
		key := x.keys[op.Key%len(x.keys)]
		switch op.Kind {
		case "put", "put-taken":
			var c *fakeConn
			if op.Kind == "put-taken" && len(mine) > 0 {
				c = mine[len(mine)-1]
				mine = mine[:len(mine)-1]
			} else {
				c = x.newConn()
			}
			wasClosed := c.closed
			c.gen++
			c.expFired = 0
			c.putStep = x.d.Step
			c.state = "cached"
			if wasClosed {
				c.state = "rejected"
			}
			x.d.Logf("  put conn%d key=%s by w%d", c.id, key, id)
			x.call(fmt.Sprintf("Put conn%d", c.id), func() { x.pool.Put(key, c) })
		case "take":
			start := x.d.Step
			var c *fakeConn
			var ok bool
			x.call("Take "+key, func() { c, ok = x.pool.Take(key) })
			if ok {
				x.d.Logf("  take key=%s by w%d -> conn%d", key, id, c.id)
				x.checkTake(c, start)
				c.state = "taken"
				mine = append(mine, c)
			} else {
				x.d.Logf("  take key=%s by w%d -> none", key, id)
			}
		case "env-close":
			if len(x.conns) > 0 {
				c := x.conns[op.Arg%len(x.conns)]
				x.call("env-close", func() { _ = c.Close() })
			}
		case "env-block":
			if len(x.conns) > 0 {
				c := x.conns[op.Arg%len(x.conns)]
				verifsim.Yield(verifsim.ClassApp, "env-block")
				if c.blockCh == nil {
					c.blockCh = make(chan struct{})
					c.blocked, c.blockedAt = true, x.d.Step
				}
			}
		case "env-unblock":
			if len(x.conns) > 0 {
				c := x.conns[op.Arg%len(x.conns)]
				verifsim.Yield(verifsim.ClassApp, "env-unblock")
				if c.blocked {
					close(c.blockCh)
					c.blocked, c.unblockAt = false, x.d.Step
				}
			}
		case "close-pool":
			x.call("Close pool", func() { _ = x.pool.Close() })
		case "sleep":
			verifsim.Sleep("harness:sleep", time.Duration(op.Arg)*100*time.Millisecond)
		}
	}
}

// checkTake: the value was cached (Put earlier, not handed out since, not closed by
// the pool), and was not closed / blocked / chosen for expiry before Take began.
func (x *e4) checkTake(c *fakeConn, start int) {
	switch c.state {
	case "cached":
	case "taken":
		x.viol("ownership", "Take returned a connection that was already handed out and not put back", fmt.Sprintf("conn%d", c.id))
	case "pool-closed":
		x.viol("ownership", "Take returned a connection the pool had already closed", fmt.Sprintf("conn%d closes=%v", c.id, c.closes))
	default:
		x.viol("ownership", "Take returned a connection that is not cached (state "+c.state+")", fmt.Sprintf("conn%d", c.id))
	}
	if c.closed && c.closedAt < start {
		x.viol("take-state", "Take returned a connection that was closed before Take began", fmt.Sprintf("conn%d closedAt=%d start=%d", c.id, c.closedAt, start))
	}
	if c.blocked && c.blockedAt < start {
		x.viol("take-state", "Take returned a connection that was blocked during the whole call", fmt.Sprintf("conn%d", c.id))
	}
	if c.expFired > 0 && c.expFired < start {
		x.viol("take-state", "Take returned a connection whose expiry had already fired", fmt.Sprintf("conn%d fired=%d start=%d", c.id, c.expFired, start))
	}
}

// bounds is evaluated after every step at which nobody holds the pool lock.
func (x *e4) bounds() {
	st := x.pool.VerifState()
	if st.Locked {
		return
	}
	if st.Cyclic {
		x.viol("bounds", "pool list is cyclic", "")
		return
	}
	if st.OrderCount != len(st.Order) {
		x.viol("bounds", fmt.Sprintf("global list count differs from its length: count-minus-length=%d", st.OrderCount-len(st.Order)), fmt.Sprintf("count=%d len=%d", st.OrderCount, len(st.Order)))
	}
	if !st.OrderBackOK || !st.KeysBackOK {
		x.viol("bounds", "forward and backward walks of a pool list disagree", "")
	}
	if x.opts.Capacity > 0 && len(st.Order) > x.opts.Capacity {
		x.viol("bounds", fmt.Sprintf("pool caches more than Capacity connections (excess=%d)", len(st.Order)-x.opts.Capacity), fmt.Sprintf("cached=%d cap=%d", len(st.Order), x.opts.Capacity))
	}
	if (x.opts.Capacity < 0 || x.opts.KeyCapacity < 0) && len(st.Order) > 0 {
		x.viol("bounds", "pool with negative capacity caches a connection", "")
	}
	total := 0
	for k, l := range st.Keys {
		total += len(l)
		if st.KeyCounts[k] != len(l) {
			x.viol("bounds", fmt.Sprintf("per-key list count differs from its length: count-minus-length=%d", st.KeyCounts[k]-len(l)), fmt.Sprintf("key=%s count=%d len=%d", k, st.KeyCounts[k], len(l)))
		}
		if x.opts.KeyCapacity > 0 && len(l) > x.opts.KeyCapacity {
			x.viol("bounds", fmt.Sprintf("pool caches more than KeyCapacity connections for one key (excess=%d)", len(l)-x.opts.KeyCapacity), fmt.Sprintf("key=%s cached=%d keycap=%d", k, len(l), x.opts.KeyCapacity))
		}
	}
	if total != len(st.Order) {
		x.viol("bounds", "per-key lists and global list hold different numbers of entries", fmt.Sprintf("keys=%d global=%d", total, len(st.Order)))
	}
}

func runE4(spec RunSpec, ch *Choices) *RunResult {
	res := &RunResult{Index: spec.Index, Seed: spec.Seed, Engine: "pool-sim", Mode: spec.Prop}
	x := &e4{spec: spec, res: res, ch: ch}
	classes := uint32(0)
	if ch.Bool("cfg", 0.6) {
		classes |= verifsim.ClassLock
	}
	x.rt = verifsim.New(classes)
	x.rt.SelectChoice = func(t *verifsim.Task, k int, n uint32) uint32 { return uint32(ch.Draw("sel:"+t.Name, int(n), nil)) }
	x.timers, x.firedSeen = map[*verifsim.Task]timerRef{}, map[*verifsim.Task]bool{}
	x.rt.OnWrap = x.timerArmed
	verifsim.Attach(x.rt)
	defer verifsim.Detach()
	x.d = NewDirector(x.rt, ch, 6000)
	x.d.Verbose = spec.Verbose
	x.d.DrawPolicy()
	x.d.ClockP = 0.04
	x.opts = drpcpool.Options{
		Capacity:    []int{0, 1, 2, 3, -1}[ch.Weighted("cfg", []int{2, 3, 3, 2, 1})],
		KeyCapacity: []int{0, 1, 2, -1}[ch.Weighted("cfg", []int{2, 3, 2, 1})],
		Expiration:  []time.Duration{time.Second, 0}[ch.Weighted("cfg", []int{3, 1})],
	}
	x.pool = drpcpool.New[string, *fakeConn](x.opts)
	nkeys := 1 + ch.Pick("cfg", 3)
	for i := 0; i < nkeys; i++ {
		x.keys = append(x.keys, fmt.Sprintf("k%d", i))
	}
	nw := 2 + ch.Pick("cfg", 2)
	desc := []string{fmt.Sprintf("cap=%d keycap=%d exp=%s keys=%d workers=%d", x.opts.Capacity, x.opts.KeyCapacity, x.opts.Expiration, nkeys, nw)}
	for w := 0; w < nw; w++ {
		st := fmt.Sprintf("w%d", w)
		n := 2 + ch.Pick(st, 7)
		var ops []poolOp
		for i := 0; i < n; i++ {
			k := []string{"put", "take", "put-taken", "env-close", "env-block", "env-unblock", "sleep", "close-pool"}[ch.Weighted(st, []int{8, 6, 3, 2, 1, 1, 3, 1})]
			ops = append(ops, poolOp{Kind: k, Key: ch.Pick(st, nkeys), Arg: ch.Pick(st, 12)})
		}
		desc = append(desc, fmt.Sprintf("w%d%v", w, ops))
		w := w
		x.rt.Spawn(st, func() { x.worker(w, ops) })
	}
	res.Desc = desc
	x.d.Logf("RUN seed=%d index=%d engine=pool-sim policy=%s", spec.Seed, spec.Index, policyNames[x.d.Policy])
	for _, l := range desc {
		x.d.Logf("  %s", l)
	}
	// the expiry callback of a connection "fires" when its timer task becomes ready
	x.d.AfterStep = func() bool {
		x.noteExpiry()
		x.bounds()
		return false
	}
	q := x.d.Run()
	if q {
		// end of run: close the pool and drain the timers
		x.rt.Spawn("finisher", func() {
			x.call("Close pool", func() { _ = x.pool.Close() })
			x.poolClosedStep = x.d.Step
		})
		q = x.d.Run()
	}
	for _, t := range x.rt.Tasks() {
		if t.Panic != nil {
			x.viol("panic", "panic: "+trunc(fmt.Sprint(t.Panic), 80), t.Name+"\n"+t.Stack)
		}
	}
	if !q {
		res.Inconcl = true
	} else {
		var left []string
		for _, t := range x.rt.Tasks() {
			if t.State != verifsim.StExited && t.State != verifsim.StPending {
				left = append(left, t.Name+"@"+whereClass(t.Label))
			}
		}
		if len(left) > 0 {
			x.viol("liveness", "pool operation blocked for ever: "+strings.Join(stripNumsAll(left), " "), strings.Join(left, " "))
		}
		// every Put connection was handed out or closed by the pool: never neither
		for _, c := range x.conns {
			// a connection somebody else closed while it was cached is simply dropped
			if c.state == "cached" && !c.closed {
				x.viol("ownership", "connection put into the pool was neither handed out nor closed by the pool after the pool was closed", fmt.Sprintf("conn%d gen%d closes=%v", c.id, c.gen, c.closes))
			}
		}
	}
	res.Hash = x.d.LogHash()
	res.Steps = x.d.Step
	res.SimTimeMS = x.d.SimTime.Milliseconds()
	res.States = len(x.d.States)
	for s := range x.d.States {
		res.StateSet = append(res.StateSet, s)
	}
	res.Preempt = x.d.Preempt
	res.Lines = x.d.Lines
	res.Decisions = x.d.Decisions
	res.Draws = ch.Draws
	res.Nontrivial = x.d.Preempt > 0 && len(x.conns) > 1
	return res
}

// timerArmed records which connection generation a timer task belongs to: the
// timer is armed by the task that is inside Put for that connection.
func (x *e4) timerArmed(timer, by *verifsim.Task) {
	if by == nil {
		return
	}
	var id int
	if _, err := fmt.Sscanf(by.API, "Put conn%d", &id); err != nil || id >= len(x.conns) {
		return
	}
	c := x.conns[id]
	x.timers[timer] = timerRef{c, c.gen}
}

type timerRef struct {
	c   *fakeConn
	gen int
}

func (x *e4) noteExpiry() {
	for t, ref := range x.timers {
		if t.State != verifsim.StPending && !x.firedSeen[t] {
			x.firedSeen[t] = true
			x.res.probe("expiry_fired")
			if ref.c.gen == ref.gen && ref.c.expFired == 0 {
				ref.c.expFired = x.d.Step
				if ref.c.state == "cached" {
					x.res.probe("expiry_fired_while_cached")
				}
			}
		}
	}
}
