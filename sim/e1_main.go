package sim

import (
	"fmt"
	"sort"
	"strings"

	"storj.io/drpc/verifsim"
)

// runE1 executes one rpc-sim run inside the current synctest bubble.
func runE1(spec RunSpec, ch *Choices) *RunResult {
	newSentinel()
	res := &RunResult{Index: spec.Index, Seed: spec.Seed, Engine: "rpc-sim", Mode: spec.Prop, Plan: spec.Params["plan"]}
	x := &e1{spec: spec, res: res, ch: ch}
	x.mode = e1ModeFor(spec.Prop)
	x.own = map[string]bool{}
	for _, o := range e1Owners[spec.Prop] {
		x.own[o] = true
	}
	x.prog = genE1(ch, x.mode)
	if spec.Params["plan"] != "" {
		x.applyPlan(spec.Params["plan"])
	}
	res.Desc = x.prog.Describe()

	classes := uint32(0)
	if x.prog.Cfg.LockYields {
		classes |= verifsim.ClassLock
	}
	// (not in the enumeration modes: every extra step multiplies the number of variants)
	stmtYields := spec.Prop != "C05" && spec.Prop != "C12" && ch.Bool("cfg", 0.06)
	if stmtYields {
		classes |= verifsim.ClassStmt // a scheduling point before every statement of the core packages
	}
	x.rt = verifsim.New(classes)
	x.rt.SelectChoice = func(t *verifsim.Task, k int, n uint32) uint32 {
		return uint32(ch.Draw("sel:"+t.Name, int(n), nil))
	}
	verifsim.Attach(x.rt)
	defer verifsim.Detach()

	budget := spec.Budget
	if budget == 0 {
		budget = 20000
	}
	if stmtYields {
		budget *= 6
		res.probe("statement_level_yields")
	}
	x.d = NewDirector(x.rt, ch, budget)
	x.d.Verbose = spec.Verbose
	x.d.DrawPolicy()
	x.d.ClockP = 0.002
	x.d.Logf("RUN seed=%d index=%d engine=rpc-sim prop=%s policy=%s", spec.Seed, spec.Index, spec.Prop, policyNames[x.d.Policy])
	for _, l := range x.prog.Describe() {
		x.d.Logf("  %s", l)
	}

	if x.mode.PooledP > 0 && ch.Bool("cfg", x.mode.PooledP) {
		res.Mode = spec.Prop + "/pooled"
		x.prog.Cfg.Manual = false
		x.prog.Cfg.Serve = true
		x.prog.Cfg.Inactivity = 0
		x.prog.FaultTask = nil
		for _, r := range x.prog.RPCs {
			// no wire-level tricks in this family: plain calls, cancels and errors
			r.Unknown = false
		}
		res.Desc = append(x.prog.Describe(), "family: pooled")
		return x.runPooled(func() *RunResult {
			res.Hash = x.d.LogHash()
			res.Steps = x.d.Step
			res.SimTimeMS = x.d.SimTime.Milliseconds()
			res.States = len(x.d.States)
			for s := range x.d.States {
				res.StateSet = append(res.StateSet, s)
			}
			res.Preempt = x.d.Preempt
			res.Lines = x.d.Lines
			res.Decisions = x.d.Decisions
			res.Draws = ch.Draws
			return res
		})
	}
	x.setup()
	if x.planStep > 0 {
		x.d.AtStep = func(step int) {
			if step == x.planStep && !x.planFired {
				x.planFired = true
				ft := FaultTask{Kind: x.planKind}
				x.d.Forced = x.rt.Spawn("planned:"+ft.Kind, func() { x.runFaultTask(ft) })
			}
		}
	}

	finish := func() *RunResult {
		res.Hash = x.d.LogHash()
		res.Steps = x.d.Step
		res.SimTimeMS = x.d.SimTime.Milliseconds()
		res.States = len(x.d.States)
		for s := range x.d.States {
			res.StateSet = append(res.StateSet, s)
		}
		res.Preempt = x.d.Preempt
		res.Lines = x.d.Lines
		res.Decisions = x.d.Decisions
		res.Draws = ch.Draws
		x.collectStats()
		res.probeN("ops_client", x.cep.Ops)
		res.probeN("ops_server", x.sep.Ops)
		return res
	}

	// phase 1: the workload
	x.phase = "q1"
	q := x.d.Run()
	x.checkPanics()
	if !q {
		res.Inconcl = true
		return finish()
	}
	x.d.Logf("QUIESCENT q1 step=%d", x.d.Step)
	x.checkHangs("q1")

	// phase 2: heal stalls
	healed := false
	for _, e := range x.stalled {
		if e.StalledIn {
			e.Heal()
			healed = true
		}
	}
	if healed {
		x.phase = "q2"
		x.d.Logf("HEAL")
		if !x.d.Run() {
			res.Inconcl = true
			return finish()
		}
		x.checkPanics()
	}
	x.checkHangs("q2")

	clientsDone := true
	for _, r := range x.recs {
		if !r.ClientDone {
			clientsDone = false
		}
	}
	if clientsDone && x.lateOps() {
		if !x.d.Run() {
			res.Inconcl = true
			return finish()
		}
		x.checkPanics()
	}
	faultFree := !x.ioFired() && !x.transportClosedByHarness() && x.closeStep == 0 && !x.byz
	connAlive := x.conn != nil && !connClosed(x.conn) && !x.serveDone

	// phase 3: probe
	if x.prog.Probe && x.conn != nil {
		handlersDone := true
		for _, r := range x.recs {
			if r.HStarted && !r.HReturned {
				handlersDone = false
			}
		}
		if clientsDone && !handlersDone {
			// C06 precondition not met: an earlier rpc has not ended on the server side
			res.probe("probe_skipped_handler_running")
			clientsDone = false
			x.viol("handler-stuck", "handler still running at quiescence although its client has ended: "+x.keyState(), fmt.Sprint(x.blockedCalls(), x.libCensus()))
		} else if !clientsDone {
			res.probe("probe_skipped_client_blocked")
			x.checkNextRPCStuck()
			// (full-duplex programs can deadlock under back-pressure by design, O1)
			if faultFree && connAlive && handlersDone && !x.anyDuplex() {
				x.viol("client-stuck", "client call blocked for ever on a healthy connection: "+x.stuckSummary(), fmt.Sprint(x.blockedCalls(), x.libCensus()))
			}
		} else {
			x.phase = "q3"
			x.runProbe()
			if !x.d.Run() {
				res.Inconcl = true
				return finish()
			}
			x.checkPanics()
			x.d.Logf("QUIESCENT q3 step=%d", x.d.Step)
			x.checkProbe()
			x.checkHangs("q3")
			if x.probeRec.InvokeDone && x.probeRec.InvokeErr == nil {
				// the same rpc once more: the dispatcher must hand its handler a fresh request
				x.probeRec.InvokeDone, x.probeRec.ClientDone = false, false
				x.probeRec.HStarted = false
				x.runProbe()
				if !x.d.Run() {
					res.Inconcl = true
					return finish()
				}
				x.checkPanics()
				if connClosed(x.conn) == false && !(x.probeRec.InvokeDone && x.probeRec.InvokeErr == nil) {
					x.viol("probe", "second probe rpc did not succeed on a connection that does not report closed", errStr(x.probeRec.InvokeErr))
				}
			}
		}
	}

	x.checkEnd(connAlive, faultFree)
	x.checkFaultContainment()
	if x.spec.Prop == "C18" {
		x.checkOldReader()
		for _, c := range x.ctl {
			res.fault("unknown-control-packet", c.Inject)
		}
	}
	if x.spec.Prop == "C13" {
		x.checkByz()
		if x.byzP != nil {
			x.checkByzFlood(x.byzP)
		}
	}

	// phase 4: teardown and leak census
	x.phase = "q4"
	x.rt.Spawn("teardown", func() {
		if x.conn != nil {
			x.clientCloseQuiet()
		}
		x.srvCancel()
	})
	if !x.d.Run() {
		res.Inconcl = true
		return finish()
	}
	x.checkPanics()
	x.checkLeaks()
	res.Nontrivial = x.nontrivial()
	return finish()
}

func (x *e1) clientCloseQuiet() {
	x.call("Conn.Close(teardown)", func() { _ = x.conn.Close() })
}

func (x *e1) stuckSummary() string {
	var parts []string
	for _, c := range x.blockedCalls() {
		parts = append(parts, apiVerb(c.API)+"@"+whereClass(c.Where))
	}
	return strings.Join(parts, ",")
}

// checkProbe: C06 — on a connection that has not reported closed, the probe
// reaches its handler and returns its response.
func (x *e1) checkProbe() {
	r := x.probeRec
	closed := connClosed(x.conn)
	if r.InvokeDone && r.InvokeErr == nil && r.RespOK {
		x.res.probe("probe_ok")
		return
	}
	if r.InvokeDone && r.InvokeErr != nil {
		if closed {
			x.res.probe("probe_failed_conn_closed")
			return
		}
		x.viol("probe", "probe rpc failed on a connection that does not report closed: err-class="+errClass(r.InvokeErr), errStr(r.InvokeErr))
		return
	}
	if r.InvokeDone && !r.RespOK {
		x.viol("crosstalk", "probe returned a foreign response", "")
		return
	}
	// not done: blocked for ever
	if closed {
		x.viol("probe", "probe rpc blocked for ever although the connection reports closed", fmt.Sprint(x.blockedCalls(), x.libCensus()))
		return
	}
	x.viol("probe", "probe rpc blocked for ever on a connection that does not report closed; "+x.keyState(),
		fmt.Sprint(x.blockedCalls(), x.libCensus()))
}

// keyState summarises where the goroutines that matter for progress are parked.
func (x *e1) keyState() string {
	want := map[string]bool{"srv.manageReader": true, "srv.serveone": true, "cli.manageReader": true}
	var parts []string
	for _, c := range x.libCensus() {
		if i := strings.IndexByte(c, '@'); i > 0 && want[c[:i]] {
			parts = append(parts, c)
		}
	}
	for _, c := range x.blockedCalls() {
		if strings.HasPrefix(c.API, "h.") {
			parts = append(parts, "handler@"+apiVerb(c.API))
		}
	}
	sort.Strings(parts)
	return strings.Join(parts, " ")
}

// checkLeaks: after teardown every task must have exited (C12).
func (x *e1) checkLeaks() {
	var left []string
	for _, t := range x.rt.Tasks() {
		if t.State == verifsim.StExited || t.State == verifsim.StPending {
			continue
		}
		left = append(left, x.roleOfTask(t.Name)+"@"+whereClass(t.Label))
	}
	if len(left) > 0 {
		x.viol("close-leak", "tasks left after closing client connection and cancelling the server: "+strings.Join(stripNumsAll(left), " "), strings.Join(left, " "))
	}
	if x.conn != nil {
		// the library must have closed each transport exactly once
		for _, e := range []*Endpoint{x.cep, x.sep} {
			lib := e.CloseCalls - x.harnessCloses(e)
			if e == x.sep && x.lis != nil && x.lis.Accepts == 0 {
				continue // the server never accepted the connection
			}
			if lib != 1 {
				x.viol("close-count", fmt.Sprintf("library closed the %s transport %d times", roleOf(e, x), lib), "")
			}
		}
	}
}

func roleOf(e *Endpoint, x *e1) string {
	if e == x.cep {
		return "client"
	}
	return "server"
}

func (x *e1) harnessCloses(e *Endpoint) int {
	n := 0
	for _, ev := range x.d.History {
		if ev.Kind == "fault" {
			if (ev.Data == "close-server-tr" && e == x.sep) || (ev.Data == "close-client-tr" && e == x.cep) {
				n++
			}
		}
	}
	return n
}

func stripNumsAll(in []string) []string {
	out := make([]string, len(in))
	for i, s := range in {
		out[i] = stripNums(s)
	}
	return out
}

func (x *e1) nontrivial() bool {
	data := false
	for _, r := range x.recs {
		if r.RespOK {
			data = true
		}
		for _, rr := range append(append([]*recvRec{}, r.C.Recvs...), r.H.Recvs...) {
			if rr.Err == nil {
				data = true
			}
		}
	}
	fired := len(x.res.Faults) > 0
	return data && (x.d.Preempt > 0 || fired)
}

func (x *e1) collectStats() {
	s := x.net.Stats
	x.res.fault("chunked-read", s.Chunked)
	x.res.fault("one-byte-read", s.OneByte)
	x.res.fault("empty-read", s.EmptyReads)
	x.res.fault("backpressure-wait", s.BackpressureWaits)
	x.res.fault("stall-wait", s.StallWaits)
	x.res.fault("read-err", s.ReadErr)
	x.res.fault("read-err-with-data", s.ReadErrWithData)
	x.res.fault("write-err", s.WriteErr)
	x.res.fault("peer-close-seen", s.PeerCloseSeen)
	cancels := 0
	for _, r := range x.recs {
		if r.Cancelled {
			cancels++
		}
	}
	x.res.fault("ctx-cancel", cancels)
	x.res.probeN("wire_abandoned_packet", x.monC.Abandoned+x.monS.Abandoned)
	x.res.probeN("write_boundary_inside_frame", x.monC.PartialAtWrite+x.monS.PartialAtWrite)
}

// applyPlan installs an externally planned fault (fault enumeration modes).
func (x *e1) applyPlan(plan string) {
	// plan := endpoint:op:kind:partial   |   step:<n>:<fault task kind>
	var ep, kind string
	var op, partial int
	parts := strings.Split(plan, ":")
	if len(parts) < 3 {
		return
	}
	if parts[0] == "step" {
		fmt.Sscan(parts[1], &x.planStep)
		x.planKind = parts[2]
		return
	}
	ep, kind = parts[0], parts[2]
	fmt.Sscan(parts[1], &op)
	if len(parts) > 3 {
		fmt.Sscan(parts[3], &partial)
	}
	if x.prog.IOFaults == nil {
		x.prog.IOFaults = map[string][]*Fault{}
	}
	x.prog.IOFaults[ep] = append(x.prog.IOFaults[ep], &Fault{Op: op, Kind: kind, Partial: partial})
}

// checkNextRPCStuck (C06): with a single client task, an rpc that cannot even start
// (blocked acquiring the connection) although every earlier rpc has ended on both
// sides and the connection does not report closed.
func (x *e1) checkNextRPCStuck() {
	if x.prog.NTasks != 1 || x.conn == nil || connClosed(x.conn) || x.pooled != nil {
		return
	}
	for _, c := range x.blockedCalls() {
		verb := apiVerb(c.API)
		if verb != "NewStream" && verb != "Invoke" {
			continue
		}
		w := whereClass(c.Where)
		if w != "acquireSemaphore" && w != "waitForPreviousStream" && w != "newStream" {
			continue
		}
		k := apiRPC(c.API)
		ended := true
		for _, r := range x.recs {
			if r.Spec.Idx < k && (!r.ClientDone || (r.HStarted && !r.HReturned)) {
				ended = false
			}
		}
		if ended {
			x.viol("next-rpc-stuck", "a new rpc cannot start although every earlier rpc ended on both sides and the connection does not report closed: "+verb+"@"+w+"; "+x.keyState(),
				fmt.Sprint(x.blockedCalls(), x.libCensus()))
		}
	}
}

// lateOps (C04): at quiescence nothing is in the middle of a termination, so a
// send or receive issued NOW on an rpc that was cancelled and is terminated must
// fail. Returns whether a task was spawned.
func (x *e1) lateOps() bool {
	var todo []*rpcRec
	for _, r := range x.recs {
		if r.Cancelled && r.C != nil && r.C.st != nil && r.C.InCall == 0 && x.terminated(r.C.st) {
			todo = append(todo, r)
		}
	}
	if len(todo) == 0 {
		return false
	}
	x.rt.Spawn("late-ops", func() {
		for _, r := range todo {
			k := r.Spec.Idx
			var rerr, serr error
			x.call(fmt.Sprintf("c.MsgRecv rpc%d", k), func() { rerr = r.C.st.MsgRecv(&Msg{}, x.enc) })
			x.call(fmt.Sprintf("c.MsgSend rpc%d", k), func() { serr = r.C.st.MsgSend(&Msg{B: msgBytes(k, r.C.dir, 8, 0, 13)}, x.enc) })
			x.d.Record(taskName(), "late-ops", fmt.Sprintf("rpc%d recv=%s send=%s", k, errStr(rerr), errStr(serr)))
			x.res.probe("late_ops_on_cancelled_rpc")
			if rerr == nil {
				x.viol("cancel-later-op", fmt.Sprintf("receive issued at quiescence on a cancelled, terminated rpc succeeded mode=%s", x.cancelMode()), fmt.Sprintf("rpc%d", k))
			}
			if serr == nil {
				x.viol("cancel-later-op", fmt.Sprintf("send issued at quiescence on a cancelled, terminated rpc succeeded mode=%s", x.cancelMode()), fmt.Sprintf("rpc%d", k))
			}
		}
	})
	return true
}

func (x *e1) anyDuplex() bool {
	for _, r := range x.prog.RPCs {
		if r.Duplex {
			return true
		}
	}
	return false
}
