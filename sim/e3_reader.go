package sim

import (
	"bytes"
	"context"
	"errors"
	"fmt"
	"io"
	"strings"

	"storj.io/drpc/drpcwire"

	oldwire "verifharness/old017/drpcwire"
)

func init() { engines["reader-chunk"] = runE3 }

// ---- reference reassembly (written from the property statement) ------------------------

type e3Outcome struct {
	Pkts []RPacket
	Err  string // "", "protocol", "io", "eof", "noprogress"
	Alt  string // reference only: a second acceptable error class ("" = none)
}

func (o e3Outcome) String() string {
	var sb strings.Builder
	for _, p := range o.Pkts {
		fmt.Fprintf(&sb, "[%s]", p)
	}
	return sb.String() + " err=" + o.Err
}

// sameOutcome compares a real outcome a with b (b may be a reference outcome
// carrying an alternative acceptable error class).
func sameOutcome(a, b e3Outcome) bool {
	if (a.Err != b.Err && (b.Alt == "" || a.Err != b.Alt)) || len(a.Pkts) != len(b.Pkts) {
		return false
	}
	for i := range a.Pkts {
		x, y := a.Pkts[i], b.Pkts[i]
		if x.Stream != y.Stream || x.Msg != y.Msg || x.Kind != y.Kind || x.Ctl != y.Ctl || !bytes.Equal(x.Data, y.Data) {
			return false
		}
	}
	return true
}

// refReassemble applies the rules of the property to the delivered byte prefix
// and then reports the terminal condition `end`.
func refReassemble(b []byte, max int, end string) e3Outcome {
	var out e3Outcome
	wmS, wmM := uint64(1), uint64(1) // ids start at stream 1, message 1
	var cur *RPacket
	for {
		fr, ok, err := refParseFrame(b)
		if err != nil {
			out.Err = "protocol"
			return out
		}
		if !ok {
			// an incomplete frame at the end of what was delivered. Memory must
			// stay bounded, so once clearly more than the maximum (plus header
			// slack) of it is buffered it has to be rejected; up to the maximum
			// it cannot be; in between either is fine.
			switch {
			case len(b) > max+64:
				out.Err = "protocol"
			case len(b) > max:
				out.Err, out.Alt = end, "protocol"
			default:
				out.Err = end
			}
			return out
		}
		b = b[fr.Size:]
		if fr.Stream < wmS || (fr.Stream == wmS && fr.Msg < wmM) {
			out.Err = "protocol"
			return out
		}
		if cur == nil || cur.Stream != fr.Stream || cur.Msg != fr.Msg {
			cur = &RPacket{Stream: fr.Stream, Msg: fr.Msg, Kind: fr.Kind}
			wmS, wmM = fr.Stream, fr.Msg
		} else if cur.Kind != fr.Kind {
			out.Err = "protocol"
			return out
		}
		cur.Ctl = cur.Ctl || fr.Ctl
		cur.Data = append(cur.Data, fr.Data...)
		if len(cur.Data) > max {
			out.Err = "protocol"
			return out
		}
		if fr.Done {
			out.Pkts = append(out.Pkts, *cur)
			wmS, wmM = cur.Stream, cur.Msg+1
			cur = nil
		}
	}
}

// tooBig: the incomplete frame at the start of b already announces (or already
// contains) more payload than any packet may carry.
func tooBig(b []byte, max int) bool {
	if len(b) < 2 {
		return false
	}
	p := 1
	for i := 0; i < 3; i++ {
		v, n, ok, err := refVarint(b[p:])
		if err != nil || !ok {
			return false
		}
		p += n
		if i == 2 && v > uint64(max) {
			return true
		}
	}
	return false
}

// ---- scripted reader -----------------------------------------------------------------------

type scriptedReader struct {
	data   []byte
	cuts   []int // chunk sizes
	pos    int
	ci     int
	endErr error
	attach bool // deliver endErr together with the last data
	empties map[int]int // before chunk i: number of (0,nil) reads
	left    int // bytes left of the current chunk
	Reads   int
	MaxBuf  int
}

func (s *scriptedReader) Read(p []byte) (int, error) {
	s.Reads++
	if len(p) > s.MaxBuf {
		s.MaxBuf = len(p)
	}
	if s.left == 0 {
		// start of chunk ci
		if n := s.empties[s.ci]; n > 0 {
			s.empties[s.ci] = n - 1
			return 0, nil
		}
		if s.pos >= len(s.data) {
			return 0, s.endErr
		}
		s.left = len(s.data) - s.pos
		if s.ci < len(s.cuts) && s.cuts[s.ci] < s.left {
			s.left = s.cuts[s.ci]
		}
		if s.left <= 0 {
			s.left = 1
		}
	}
	n := s.left
	if n > len(p) {
		n = len(p)
	}
	copy(p, s.data[s.pos:s.pos+n])
	s.pos += n
	s.left -= n
	if s.left == 0 {
		s.ci++
	}
	if s.pos >= len(s.data) && s.attach {
		return n, s.endErr
	}
	return n, nil
}

var errE3 = errors.New("injected read error")

func classify(err error) string {
	switch {
	case err == nil:
		return ""
	case errors.Is(err, errE3):
		return "io"
	case errors.Is(err, io.ErrNoProgress):
		return "noprogress"
	case err == io.EOF:
		return "eof"
	case strings.Contains(err.Error(), "protocol error"):
		return "protocol"
	}
	return "other:" + trunc(err.Error(), 40)
}

// runReal drives the real reader over a scripted partition of data.
func runReal(data []byte, max int, cuts []int, endErr error, attach bool, empties map[int]int) (e3Outcome, int, int, error) {
	sr := &scriptedReader{data: data, cuts: cuts, endErr: endErr, attach: attach, empties: empties}
	rd := drpcwire.NewReaderWithOptions(sr, drpcwire.ReaderOptions{MaximumBufferSize: max})
	var out e3Outcome
	maxCap := 0
	var buf []byte
	for i := 0; i < 100000; i++ {
		pkt, err := rd.ReadPacketUsing(buf[:0])
		if c := rd.VerifBufCap(); c > maxCap {
			maxCap = c
		}
		if err != nil {
			out.Err = classify(err)
			return out, maxCap, sr.MaxBuf, err
		}
		buf = pkt.Data
		out.Pkts = append(out.Pkts, RPacket{Stream: pkt.ID.Stream, Msg: pkt.ID.Message, Kind: uint8(pkt.Kind), Ctl: pkt.Control, Data: append([]byte(nil), pkt.Data...)})
	}
	out.Err = "loop"
	return out, maxCap, sr.MaxBuf, nil
}

// ---- generator --------------------------------------------------------------------------------

type e3gen struct {
	ch  *Choices
	max int
	desc []string
}

func (g *e3gen) pick(n int) int        { return g.ch.Pick("gen", n) }
func (g *e3gen) chance(p float64) bool { return g.ch.Bool("gen", p) }

// stream builds the byte string.
func (g *e3gen) stream() []byte {
	var b []byte
	sid, mid := uint64(1), uint64(1)
	if g.chance(0.1) {
		sid = uint64(1 + g.pick(5))
	}
	npk := 1 + g.pick(12)
	mode := g.ch.Weighted("gen", []int{6, 3, 2}) // 0 valid, 1 one malformation, 2 hostile
	badAt := -1
	if mode == 1 {
		badAt = g.pick(npk)
	}
	for i := 0; i < npk; i++ {
		kind := uint8(g.pick(64))
		if g.chance(0.7) {
			kind = uint8(1 + g.pick(7))
		}
		size := []int{0, 1, 5, g.max - 1, g.max, 10, 100, g.max / 2, 3}[g.pick(9)]
		if size < 0 {
			size = 0
		}
		if size > 5000 {
			size = 5000
		}
		data := make([]byte, size)
		for j := range data {
			data[j] = byte(j*3 + i*7 + 1)
		}
		ctlAt := -1
		nfr := 1 + g.pick(4)
		if nfr > size+1 {
			nfr = size + 1
		}
		if g.chance(0.15) {
			ctlAt = g.pick(nfr)
		}
		// malformations
		if i == badAt {
			switch g.pick(8) {
			case 0: // id regression (message)
				g.desc = append(g.desc, "msg-regress")
				b = refAppendFrame(b, RFrame{Stream: sid, Msg: mid - 1, Kind: kind, Done: true, Data: data})
				continue
			case 1: // stream regression / below initial watermark
				g.desc = append(g.desc, "stream-regress")
				b = refAppendFrame(b, RFrame{Stream: sid - 1, Msg: mid + 5, Kind: kind, Done: true, Data: data})
				continue
			case 2: // kind change inside a packet
				g.desc = append(g.desc, "kind-change")
				b = refAppendFrame(b, RFrame{Stream: sid, Msg: mid, Kind: kind, Data: data})
				b = refAppendFrame(b, RFrame{Stream: sid, Msg: mid, Kind: kind ^ 1, Done: true, Ctl: g.chance(0.5), Data: data})
				mid++
				continue
			case 3: // over-long varint
				g.desc = append(g.desc, "long-varint")
				b = append(b, kind<<1|1, 0x80, 0x80, 0x80, 0x80, 0x80, 0x80, 0x80, 0x80, 0x80, 0x80, 0x80, 0x01)
				return b
			case 4: // packet over the maximum by accumulation
				g.desc = append(g.desc, "packet-over-max")
				big := make([]byte, g.max/2+1)
				b = refAppendFrame(b, RFrame{Stream: sid, Msg: mid, Kind: kind, Data: big})
				b = refAppendFrame(b, RFrame{Stream: sid, Msg: mid, Kind: kind, Data: big})
				b = refAppendFrame(b, RFrame{Stream: sid, Msg: mid, Kind: kind, Done: true, Data: big})
				mid++
				continue
			case 5: // single frame over the maximum
				g.desc = append(g.desc, "frame-over-max")
				big := make([]byte, g.max+1+g.pick(3))
				b = refAppendFrame(b, RFrame{Stream: sid, Msg: mid, Kind: kind, Done: true, Data: big})
				mid++
				continue
			case 6: // unfinished packet abandoned by a higher id (legal); its control bit and kind die with it
				g.desc = append(g.desc, "abandon")
				nab := 1 + g.pick(2)
				for a := 0; a < nab; a++ {
					b = refAppendFrame(b, RFrame{Stream: sid, Msg: mid, Kind: kind ^ 3, Ctl: g.chance(0.5), Data: data})
				}
				if g.chance(0.4) {
					sid++ // abandoned by the NEXT stream, whose packet carries the same message id
				} else {
					mid++
				}
			case 7: // an unfinished packet raises the floor: the ids that follow it are lower
				g.desc = append(g.desc, "regress-after-abandon")
				if g.chance(0.5) {
					b = refAppendFrame(b, RFrame{Stream: sid, Msg: mid + 2 + uint64(g.pick(3)), Kind: kind, Data: data})
				} else {
					b = refAppendFrame(b, RFrame{Stream: sid + 1 + uint64(g.pick(2)), Msg: 1, Kind: kind, Data: data})
				}
			}
		}
		// split into frames
		rest := data
		for f := 0; f < nfr; f++ {
			n := len(rest)
			if f < nfr-1 && len(rest) > 0 {
				n = g.pick(len(rest) + 1)
			}
			b = refAppendFrame(b, RFrame{Stream: sid, Msg: mid, Kind: kind, Done: f == nfr-1, Ctl: f == ctlAt, Data: rest[:n]})
			rest = rest[n:]
		}
		mid++
		if g.chance(0.2) {
			sid += uint64(1 + g.pick(3))
			mid = uint64(g.pick(4)) // message id 0 is an id like any other on a later stream
		} else if g.chance(0.1) {
			mid += uint64(g.pick(4))
		}
		// ids are plain unsigned 64-bit numbers: jumps into the upper half are ordinary
		if g.chance(0.04) && sid < 1<<63 {
			sid |= 1 << 63
			mid = uint64(1 + g.pick(3))
		} else if g.chance(0.04) && mid < 1<<63 {
			mid |= 1 << 63
		}
	}
	if mode == 2 {
		switch g.pick(4) {
		case 3: // legal but padded (over-long yet valid) varints, payload exactly the maximum
			g.desc = append(g.desc, "padded-varints")
			extra := byte(0)
			if g.chance(0.4) {
				extra = byte(g.pick(64)) << 1 // bits beyond the 64th: dropped by a 10-byte varint
			}
			pad := func(b []byte, v uint64) []byte {
				for i := 0; i < 9; i++ {
					b = append(b, byte(v)|0x80)
					v >>= 7
				}
				return append(b, byte(v)|extra)
			}
			n := g.max - g.pick(2)
			if n < 0 {
				n = 0
			}
			if n > 5000 {
				n = 5000
			}
			b = append(b, 2<<1|1)
			b = pad(b, sid)
			b = pad(b, mid)
			b = pad(b, uint64(n))
			b = append(b, make([]byte, n)...)
			mid++
		case 0: // declared length 2^62 then some bytes
			g.desc = append(g.desc, "huge-length")
			b = append(b, 0x05)
			b = refAppendVarint(b, sid)
			b = refAppendVarint(b, mid)
			b = refAppendVarint(b, 1<<62)
			b = append(b, make([]byte, 100+g.pick(3000))...)
		case 1: // endless non-done frames of one id
			g.desc = append(g.desc, "endless-frames")
			chunk := make([]byte, 1+g.pick(50))
			for i := 0; i < 400; i++ {
				b = refAppendFrame(b, RFrame{Stream: sid, Msg: mid, Kind: 2, Data: chunk})
			}
		case 2: // thousands of tiny packets
			g.desc = append(g.desc, "tiny-packets")
			ntiny := 1500
			if g.max <= 100 && g.chance(0.3) {
				ntiny = 20000 // far more bytes than the memory bound: nothing may accumulate
			}
			for i := 0; i < ntiny; i++ {
				b = refAppendFrame(b, RFrame{Stream: sid, Msg: mid, Kind: 2, Done: true, Data: []byte{byte(i)}})
				mid++
			}
		}
	}
	return b
}

// partition draws a split of n bytes into read sizes.
func (g *e3gen) partition(n int, style int) []int {
	var cuts []int
	switch style {
	case 0: // everything at once (bounded by the buffer the reader offers)
		return []int{n + 1}
	case 1: // one byte at a time
		for i := 0; i < n; i++ {
			cuts = append(cuts, 1)
		}
	case 2: // random small
		for left := n; left > 0; {
			c := 1 + g.ch.Pick("part", 7)
			cuts = append(cuts, c)
			left -= c
		}
	default: // random mixed
		for left := n; left > 0; {
			c := 1 + g.ch.Pick("part", 1+left)
			if g.ch.Bool("part", 0.5) {
				c = 1 + g.ch.Pick("part", 40)
			}
			cuts = append(cuts, c)
			left -= c
		}
	}
	return cuts
}

func runE3(spec RunSpec, ch *Choices) *RunResult {
	res := &RunResult{Index: spec.Index, Seed: spec.Seed, Engine: "reader-chunk", Mode: spec.Prop}
	d := NewDirector(nil, ch, 0)
	g := &e3gen{ch: ch}
	g.max = []int{1, 10, 100, 1000, 4096, 65536}[ch.Weighted("gen", []int{1, 2, 3, 3, 2, 1})]
	var data []byte
	if spec.Prop == "C18" && ch.Bool("gen", 0.25) {
		return runE3NewToOld(spec, ch, res, d)
	}
	fromOld := spec.Prop == "C18" || ch.Bool("gen", 0.15)
	if fromOld {
		data = g.oldWriterStream()
		g.desc = append(g.desc, "v0.0.17-writer")
	} else {
		data = g.stream()
	}
	// terminal condition
	end, endErr := "eof", error(io.EOF)
	cutAt := len(data)
	if ch.Bool("gen", 0.3) {
		end, endErr = "io", errE3
		cutAt = ch.Pick("gen", len(data)+1)
	}
	delivered := data[:cutAt]
	want := refReassemble(delivered, g.max, end)
	d.Logf("RUN seed=%d index=%d engine=reader-chunk max=%d len=%d desc=%v end=%s@%d", spec.Seed, spec.Index, g.max, len(data), g.desc, end, cutAt)
	d.Logf("  want %s", trunc(want.String(), 300))
	res.Desc = map[string]any{"max": g.max, "bytes": len(data), "kinds": g.desc, "end": end, "cut": cutAt, "expected_packets": len(want.Pkts), "expected_err": want.Err}

	viol := func(oracle, sig, detail string) {
		d.Logf("  VIOL %s %s", oracle, sig)
		for _, v := range res.Viol {
			if v.Sig == sig {
				return
			}
		}
		res.Viol = append(res.Viol, Violation{Prop: spec.Prop, Oracle: oracle, Sig: sig, Detail: detail})
	}
	bound := 4*g.max + 64<<10
	var first *e3Outcome
	firstStyle := -1
	nparts := 5
	for pi := 0; pi < nparts; pi++ {
		style := pi
		if pi >= 3 {
			style = 3
		}
		cuts := g.partition(len(delivered), style)
		attach := ch.Bool("part", 0.5)
		empties := map[int]int{}
		if ch.Bool("part", 0.3) && len(cuts) > 0 {
			empties[ch.Pick("part", len(cuts))] = 1 + ch.Pick("part", 98)
		}
		got, maxCap, maxBuf, rerr := runReal(delivered, g.max, cuts, endErr, attach, empties)
		d.Logf("  part style=%d reads=%d attach=%v empties=%d -> %s", style, len(cuts), attach, len(empties), trunc(got.String(), 200))
		if !sameOutcome(got, want) {
			viol("differential", fmt.Sprintf("reader result differs from reference reassembly: got-err=%s want-err=%s packets got%swant partition-style=%d",
				got.Err, want.Err, cmpSign(len(got.Pkts), len(want.Pkts)), style),
				fmt.Sprintf("max=%d desc=%v got=%s want=%s realerr=%v", g.max, g.desc, trunc(got.String(), 200), trunc(want.String(), 200), rerr))
		}
		if first == nil {
			first, firstStyle = &got, style
		} else if !sameOutcome(got, *first) {
			viol("metamorphic", fmt.Sprintf("same bytes, different read partition, different result: err %s vs %s, packets %s", first.Err, got.Err, cmpSign(len(first.Pkts), len(got.Pkts))),
				fmt.Sprintf("max=%d desc=%v style %d: %s | style %d: %s", g.max, g.desc, firstStyle, trunc(first.String(), 160), style, trunc(got.String(), 160)))
		}
		if maxCap > bound || maxBuf > bound {
			viol("memory", fmt.Sprintf("reader buffer grew beyond 4*max+64KiB (max=%d)", g.max), fmt.Sprintf("cap=%d offered=%d bound=%d", maxCap, maxBuf, bound))
		}
		res.fault("partition-style-"+fmt.Sprint(style), 1)
		if attach && end == "io" {
			res.fault("read-err-with-data", 1)
		}
		if len(empties) > 0 {
			res.fault("empty-read-burst", 1)
		}
	}
	// no-progress: >= 100 empty reads at a point inside the stream
	if ch.Bool("part", 0.15) && len(delivered) > 0 {
		at := ch.Pick("part", len(delivered))
		cuts := []int{at, len(delivered)}
		empties := map[int]int{1: 100}
		if at == 0 {
			cuts = []int{len(delivered)}
			empties = map[int]int{0: 100}
		}
		got, _, _, _ := runReal(delivered, g.max, cuts, endErr, false, empties)
		wantNP := refReassemble(delivered[:at], g.max, "noprogress")
		res.fault("empty-read-100", 1)
		if !sameOutcome(got, wantNP) {
			viol("differential", fmt.Sprintf("no-progress handling differs: got-err=%s want-err=%s", got.Err, wantNP.Err), fmt.Sprintf("at=%d got=%s want=%s", at, trunc(got.String(), 150), trunc(wantNP.String(), 150)))
		}
	}
	for _, k := range g.desc {
		res.probe("input_" + k)
	}
	if len(g.desc) == 0 {
		res.probe("input_valid")
	}
	res.Nontrivial = len(delivered) > 0
	res.Hash = d.LogHash()
	res.Lines = d.Lines
	res.Steps = nparts
	res.Draws = ch.Draws
	return res
}

func cmpSign(a, b int) string {
	switch {
	case a < b:
		return "<"
	case a > b:
		return ">"
	}
	return "="
}

// oldWriterStream produces bytes with the released v0.0.17 Writer/SplitN (C18 b).
func (g *e3gen) oldWriterStream() []byte {
	var buf bytes.Buffer
	w := oldwire.NewWriter(&buf, 1+g.pick(200))
	sid, mid := uint64(1), uint64(1)
	n := 1 + g.pick(10)
	for i := 0; i < n; i++ {
		size := []int{0, 1, 10, 100, g.max, g.max / 2, 3000}[g.pick(7)]
		if size > 5000 {
			size = 5000
		}
		data := make([]byte, size)
		for j := range data {
			data[j] = byte(j + i)
		}
		pkt := oldwire.Packet{Data: data, ID: oldwire.ID{Stream: sid, Message: mid}, Kind: oldwire.Kind(1 + g.pick(6))}
		split := []int{-1, 0, 1, 7, 64, 1000}[g.pick(6)]
		_ = oldwire.SplitN(context.Background(), pkt, split, func(ctx context.Context, fr oldwire.Frame) error { return w.WriteFrame(ctx, fr) })
		if g.chance(0.3) {
			_ = w.Flush(context.Background())
		}
		mid++
		if g.chance(0.2) {
			sid++
			mid = 1
		}
		if g.chance(0.05) && sid < 1<<63 {
			sid |= 1 << 63
			mid = 1
		} else if g.chance(0.05) && mid < 1<<63 {
			mid |= 1 << 63
		}
	}
	_ = w.Flush(context.Background())
	return buf.Bytes()
}

// runE3NewToOld (C18 a, large messages): packets are cut into frames the way the
// current stream layer does it (drpcwire.SplitData with the configured split size,
// default included) and encoded with the current AppendFrame; the released
// v0.0.17 reader has to decode exactly those packets. (The rpc engine covers the
// same direction for everything it emits, but its messages stay below 200 KB.)
func runE3NewToOld(spec RunSpec, ch *Choices, res *RunResult, d *Director) *RunResult {
	split := []int{0, 0, 1000, 65536, 200000}[ch.Pick("gen", 5)]
	var b []byte
	var want []RPacket
	n := 1 + ch.Pick("gen", 3)
	mid := uint64(1)
	for i := 0; i < n; i++ {
		size := []int{0, 1, 65535, 65536, 65537, 200000, 1<<20 - 8, 1 << 20, 1<<20 + 5000, 3 << 20}[ch.Pick("gen", 10)]
		data := make([]byte, size)
		for j := 0; j < len(data); j += 97 {
			data[j] = byte(j + i)
		}
		if ch.Bool("gen", 0.2) {
			// a control packet of a kind the released version does not know, cut with
			// the current SplitN: the released reader skips every frame of it
			_ = drpcwire.SplitN(drpcwire.Packet{Data: data, ID: drpcwire.ID{Stream: 1, Message: mid}, Kind: drpcwire.Kind(8 + ch.Pick("gen", 50)), Control: true}, split, func(fr drpcwire.Frame) error {
				b = drpcwire.AppendFrame(b, fr)
				return nil
			})
			mid++
			continue
		}
		want = append(want, RPacket{Stream: 1, Msg: mid, Kind: kMessage, Data: data})
		rest := data
		for {
			var part []byte
			part, rest = drpcwire.SplitData(rest, split)
			done := len(rest) == 0
			b = drpcwire.AppendFrame(b, drpcwire.Frame{Data: part, ID: drpcwire.ID{Stream: 1, Message: mid}, Kind: drpcwire.KindMessage, Done: done})
			if done {
				break
			}
		}
		mid++
	}
	d.Logf("RUN seed=%d index=%d engine=reader-chunk mode=new-writer-to-v0.0.17-reader split=%d packets=%d bytes=%d", spec.Seed, spec.Index, split, n, len(b))
	res.Desc = map[string]any{"mode": "current SplitData/AppendFrame -> v0.0.17 reader", "split": split, "packets": n, "bytes": len(b)}
	viol := func(sig, detail string) {
		d.Logf("  VIOL oldreader %s", sig)
		res.Viol = append(res.Viol, Violation{Prop: spec.Prop, Oracle: "oldreader", Sig: sig, Detail: detail})
	}
	rd := oldwire.NewReader(bytes.NewReader(b))
	for i := 0; ; i++ {
		pkt, err := rd.ReadPacket()
		if err == io.EOF {
			if i != len(want) {
				viol("released v0.0.17 reader decodes fewer packets than were written", fmt.Sprintf("%d of %d", i, len(want)))
			}
			break
		}
		if err != nil {
			viol("released v0.0.17 reader rejects frames the current stream layer cuts with its split size: "+stripNums(trunc(err.Error(), 60)), fmt.Sprintf("split=%d packet %d: %v", split, i, err))
			break
		}
		if i >= len(want) || pkt.ID.Message != want[i].Msg || uint8(pkt.Kind) != kMessage || !bytes.Equal(pkt.Data, want[i].Data) {
			viol("released v0.0.17 reader decodes a different packet than was written", fmt.Sprintf("packet %d", i))
			break
		}
	}
	res.Hash = d.LogHash()
	res.Steps = 1
	res.Lines = d.Lines
	res.Draws = ch.Draws
	res.Nontrivial = true
	return res
}
