package sim

import (
	"bytes"
	"context"
	"errors"
	"fmt"
	"io"
	"strings"
	"time"

	"storj.io/drpc"
	"storj.io/drpc/drpcconn"
	"storj.io/drpc/drpcerr"
	"storj.io/drpc/drpcmanager"
	"storj.io/drpc/drpcmetadata"
	"storj.io/drpc/drpcmux"
	"storj.io/drpc/drpcserver"
	"storj.io/drpc/drpcstream"
	"storj.io/drpc/drpcwire"
	"storj.io/drpc/verifsim"
	"storj.io/drpc/verifsim/simsync"
)

// ---- records ---------------------------------------------------------------------

type sendRec struct {
	Op    Op
	Start int
	End   int
	Done  bool
	Err   error
	Bytes []byte
}

type recvRec struct {
	Step int
	Data []byte
	Err  error
}

// sideRec is what one side (client or handler) of one RPC did on its stream.
type sideRec struct {
	rpc      *rpcRec
	client   bool
	dir      int // direction of messages SENT by this side
	st       drpc.Stream
	Sends    []*sendRec
	Recvs    []*recvRec
	nextSeq  map[int]int // per sender of the PEER: next expected seq
	seen     map[int]bool
	recvPos  int         // number of messages received (single sender positional check)
	FirstErr error       // first non-nil error returned by a receive
	CloseSendErr error
	CloseSendDone bool
	ClosedByMe    bool // this side called Close
	CloseStep     int
	auxDone  []*simsync.WaitGroup
	InCall   int // number of tasks currently inside a stream call of this side
	Ended    bool
}

type rpcRec struct {
	Spec *RPCSpec
	x    *e1

	SID       uint64
	NewErr    error
	NewDone   bool
	Created   bool
	C, H      *sideRec
	cancel    context.CancelFunc
	Cancelled bool
	CancelStep int
	ctx       context.Context

	InvokeDone bool
	InvokeWriteFailed bool // a transport write issued by this Invoke failed
	InvokeErr  error
	RespOK     bool
	atCancel   map[string]blockedCall // calls of this rpc that were blocked when its context was cancelled

	HStarted  bool
	HStartStep int
	HReturned bool
	HRetStep  int
	HMeta     map[string]string
	HMetaOK   bool
	HCtx      context.Context
	ClientDone bool
	ClientDoneStep int
	probe     bool
}

// ---- engine ------------------------------------------------------------------------

type e1 struct {
	spec RunSpec
	res  *RunResult
	mode E1Mode
	prog *E1Prog
	ch   *Choices
	rt   *verifsim.Runtime
	d    *Director
	net  *Net

	conn       *drpcconn.Conn
	sharedMeta map[string]string // the application's long-lived metadata map (style 1)
	byzP       *byzProxy
	serveSim   time.Duration // simulated time at which Serve/ServeOne returned
	lastHRetSim time.Duration // simulated time at which a handler last returned
	mdctx      map[int]context.Context // per task: the metadata context the next derived call starts from (style 3)
	cli        drpc.Conn // what client scripts call: the connection itself, or a pool conn (pooled family)
	pooled     *pooledState
	cep, sep   *Endpoint
	monC, monS *WireMonitor
	lis        *Listener
	recs       []*rpcRec
	probeRec   *rpcRec

	srvCtx     context.Context
	srvCancel  context.CancelFunc
	serveDone  bool
	serveErr   error
	serveStep  int
	cliTasksWG simsync.WaitGroup
	closeCalls int
	closeDone  int
	closeStep  int
	connClosedAt int
	srvLog     []string
	ioFaulted  bool
	faultStep  int
	stalled    []*Endpoint
	byz        bool
	planStep   int
	planKind   string
	planFired  bool
	badMeta    bool
	did        map[string]int // harness-driven closes/cancels that really happened -> step
	probeStart int
	ctl        []*ctlProxy
	own        map[string]bool // oracle names owned by the property under check
	enc        rawEnc
	phase      string
}

func (x *e1) viol(oracle, sig, detail string) {
	v := Violation{Prop: x.spec.Prop, Oracle: oracle, Sig: sig, Detail: detail, Step: x.d.Step}
	x.d.Logf("  VIOL %s %s", oracle, sig)
	if x.own[oracle] {
		for _, o := range x.res.Viol {
			if o.Sig == sig {
				return
			}
		}
		x.res.Viol = append(x.res.Viol, v)
	} else {
		for _, o := range x.res.Other {
			if o.Sig == sig {
				return
			}
		}
		if len(x.res.Other) < 16 {
			x.res.Other = append(x.res.Other, v)
		}
	}
}

// call brackets an API call of the harness: a scheduling point before it and the
// API label while it runs.
func (x *e1) call(desc string, f func()) {
	_, t := verifsim.Current()
	verifsim.Yield(verifsim.ClassApp, desc)
	if t != nil {
		t.SetAPI(desc)
	}
	f()
	if t != nil {
		t.SetAPI("")
	}
}

func taskName() string {
	_, t := verifsim.Current()
	if t == nil {
		return "director"
	}
	return t.Name
}

func (x *e1) managerOptions(soft bool) drpcmanager.Options {
	c := x.prog.Cfg
	return drpcmanager.Options{
		WriterBufferSize: c.WBuf,
		Reader:           drpcwire.ReaderOptions{MaximumBufferSize: c.ReaderMax},
		Stream: drpcstream.Options{
			SplitSize:         c.Split,
			ManualFlush:       c.Manual,
			MaximumBufferSize: c.StreamMax,
		},
		SoftCancel:        soft,
		InactivityTimeout: c.Inactivity,
	}
}

func (x *e1) newRec(spec *RPCSpec) *rpcRec {
	r := &rpcRec{Spec: spec, x: x}
	r.C = &sideRec{rpc: r, client: true, dir: dirC2S, nextSeq: map[int]int{}}
	r.H = &sideRec{rpc: r, client: false, dir: dirS2C, nextSeq: map[int]int{}}
	return r
}

// setup builds the parties and starts all initial tasks (parked).
func (x *e1) setup() {
	c := x.prog.Cfg
	x.net = &Net{D: x.d, RT: x.rt, Ch: x.ch, TCPStyle: c.TCP, EmptyReads: c.EmptyReads, EmptyHeavy: c.EmptyHeavy}
	x.cep, x.sep = x.net.Pipe("conn0", c.NetCap)
	x.monC = &WireMonitor{Name: "client"}
	x.monS = &WireMonitor{Name: "server"}
	x.net.OnWrite = func(e *Endpoint, p []byte) {
		if e == x.cep {
			x.monC.Write(p)
		} else if e == x.sep {
			x.monS.Write(p)
		}
	}
	switch x.spec.Prop {
	case "C18":
		x.monC.KeepRaw, x.monS.KeepRaw = true, true
		if x.ch.Bool("cfg", 0.5) {
			pc, ps := &ctlProxy{x: x}, &ctlProxy{x: x}
			x.ctl = []*ctlProxy{pc, ps}
			x.net.Mutate = func(from *Endpoint, p []byte) []byte {
				if from == x.cep {
					return pc.mutate(from, p)
				}
				return ps.mutate(from, p)
			}
		}
	case "C13":
		bp := &byzProxy{x: x, Fired: map[string]int{}, dead: map[*Endpoint]bool{}}
		x.net.Mutate = bp.mutate
		x.byzP = bp
	}
	for ep, fs := range x.prog.IOFaults {
		switch ep {
		case "client":
			x.cep.Faults = fs
		case "server":
			x.sep.Faults = fs
		}
	}

	mux := drpcmux.New()
	for _, r := range x.prog.RPCs {
		if err := mux.Register(&rpcSrv{x, r.Idx}, rpcDesc{r.Idx}); err != nil {
			panic(err)
		}
		x.recs = append(x.recs, x.newRec(r))
	}
	probeSpec := &RPCSpec{Idx: 200, Shape: ShUnary, ReqSize: 16, Resp: 16, HRet: RetResp}
	x.probeRec = x.newRec(probeSpec)
	x.probeRec.probe = true
	if err := mux.Register(&rpcSrv{x, 200}, rpcDesc{200}); err != nil {
		panic(err)
	}

	srv := drpcserver.NewWithOptions(mux, drpcserver.Options{
		Manager:      x.managerOptions(c.SoftS),
		Log:          func(err error) { x.srvLog = append(x.srvLog, errStr(err)) },
		CollectStats: c.Stats,
	})
	x.srvCtx, x.srvCancel = context.WithCancel(context.Background())

	if c.Serve {
		x.lis = x.net.NewListener("lis0")
		x.lis.Push(x.sep)
		x.rt.Spawn("srv", func() {
			err := srv.Serve(x.srvCtx, x.lis)
			x.serveDone, x.serveErr, x.serveStep, x.serveSim = true, err, x.d.Step, x.d.SimTime
			for _, t := range x.rt.Tasks() {
				// goroutines that have signalled completion and are merely returning are
				// runnable; a goroutine that is still blocked has not been torn down
				// (a per-connection goroutine that has not even started counts too)
				notStarted := strings.HasPrefix(t.Name, "srv/track") && !strings.Contains(strings.TrimPrefix(t.Name, "srv/"), "/") && (t.State == verifsim.StStarting || (t.State == verifsim.StReady && t.Label == "start"))
				if strings.HasPrefix(t.Name, "srv/") && (t.State == verifsim.StWaiting || t.State == verifsim.StChan || notStarted) {
					x.viol("serve-order", "Serve returned while a goroutine it started is still alive: "+x.roleOfTask(t.Name)+"@"+whereClass(t.Label), t.Name)
				}
			}
			x.d.Record(taskName(), "serve-return", errStr(err))
		})
	} else {
		x.rt.Spawn("srv", func() {
			err := srv.ServeOne(x.srvCtx, x.sep)
			x.serveDone, x.serveErr, x.serveStep, x.serveSim = true, err, x.d.Step, x.d.SimTime
			x.d.Record(taskName(), "serveone-return", errStr(err))
		})
	}

	// the client connection is created by the first client task so that its
	// manager goroutines are children of a task.
	x.rt.Spawn("cli-init", func() {
		x.conn = drpcconn.NewWithOptions(x.cep, drpcconn.Options{Manager: x.managerOptions(c.SoftC), CollectStats: c.Stats})
		x.cli = x.conn
		for j := 0; j < x.prog.NTasks; j++ {
			j := j
			x.cliTasksWG.Add(1)
			x.rt.Spawn(fmt.Sprintf("cli%d", j), func() {
				defer x.cliTasksWG.Done()
				for _, r := range x.recs {
					if r.Spec.Task == j {
						x.runClientRPC(r)
					}
				}
			})
		}
		for i, ft := range x.prog.FaultTask {
			ft := ft
			x.rt.Spawn(fmt.Sprintf("fault%d:%s", i, ft.Kind), func() { x.runFaultTask(ft) })
		}
	})
}

// delay makes a helper task let n scheduling points pass.
func (x *e1) delay(what string, n int) {
	for i := 0; i < n; i++ {
		verifsim.Yield(verifsim.ClassApp, what)
	}
}

func (x *e1) runFaultTask(ft FaultTask) {
	x.delay("fault-delay", ft.Delay)
	if x.did == nil {
		x.did = map[string]int{}
	}
	done := func(what string) {
		x.d.Record(taskName(), "fault", ft.Kind)
		x.res.fault(ft.Kind, 1)
		if _, ok := x.did[what]; !ok {
			x.did[what] = x.d.Step
		}
		if x.faultStep == 0 {
			x.faultStep = x.d.Step
		}
	}
	switch ft.Kind {
	case "stall-c2s":
		done("stall")
		x.sep.StalledIn = true
		x.stalled = append(x.stalled, x.sep)
	case "stall-s2c":
		done("stall")
		x.cep.StalledIn = true
		x.stalled = append(x.stalled, x.cep)
	case "close-client-conn", "close-client-conn-twice", "close-client-conn-concurrent":
		if x.conn == nil {
			x.res.probe("planned_fault_before_conn_exists")
			return
		}
		done("conn-close")
		if ft.Kind == "close-client-conn-concurrent" {
			x.rt.Spawn("closer2", func() { x.clientClose() })
		}
		x.clientClose()
		if ft.Kind == "close-client-conn-twice" {
			x.clientClose()
		}
	case "close-server-tr":
		done("tr-close")
		x.call("Transport.Close(server)", func() { x.sep.Close() })
	case "close-client-tr":
		done("tr-close")
		x.call("Transport.Close(client)", func() { x.cep.Close() })
	case "cancel-serve":
		done("serve-cancel")
		x.srvCancel()
	case "bad-metadata":
		// a hostile or broken peer: an invoke-metadata packet for a future
		// stream whose payload is not a metadata encoding, right after the
		// next client write (frame boundary)
		x.d.Record(taskName(), "fault", ft.Kind)
		x.res.fault(ft.Kind, 1)
		x.badMeta = true
		x.byz = true
		x.cep.InjectAfter = refAppendFrame(nil, RFrame{Stream: 1 << 20, Msg: 1, Kind: kInvokeMD, Done: true, Data: []byte{0xff, 0xff, 0xff}})
	case "listener-error":
		if x.lis == nil {
			x.res.probe("planned_fault_not_applicable")
			return
		}
		done("serve-cancel")
		x.lis.PushErr(errInjected)
	}
}

func (x *e1) clientClose() {
	x.closeCalls++
	if x.closeStep == 0 {
		x.closeStep = x.d.Step
	}
	var err error
	x.call("Conn.Close", func() { err = x.conn.Close() })
	x.closeDone++
	x.d.Record(taskName(), "conn-close-return", errStr(err))
	// when Close returns the transport has been closed (not "is being closed")
	if x.cep != nil && !x.cep.IsClosed() {
		x.viol("close-count", "Conn.Close returned before the transport was closed", "")
	}
}

func connClosed(c *drpcconn.Conn) bool {
	select {
	case <-c.Closed():
		return true
	default:
		return false
	}
}

// ---- client side --------------------------------------------------------------------

func (x *e1) reqBytes(r *RPCSpec) []byte {
	b := msgBytes(r.Idx, dirC2S, 0, seqReq, r.ReqSize)
	if r.BadMarshal {
		b[0] = 0xEF
	}
	return b
}
func (x *e1) respBytes(r *RPCSpec) []byte { return msgBytes(r.Idx, dirS2C, 0, seqResp, r.Resp) }

func (x *e1) runClientRPC(r *rpcRec) {
	spec := r.Spec
	var parent context.Context = context.Background()
	if spec.HasMeta && spec.MetaStyle == 3 {
		// derived from the previous call's metadata context of this task
		if x.mdctx == nil {
			x.mdctx = map[int]context.Context{}
		}
		if x.mdctx[spec.Task] == nil {
			x.mdctx[spec.Task] = context.Background()
		}
		for _, k := range sortedKeys(spec.MetaExtras) {
			x.mdctx[spec.Task] = drpcmetadata.Add(x.mdctx[spec.Task], k, spec.MetaExtras[k])
		}
		parent = x.mdctx[spec.Task]
	}
	ctx, cancel := context.WithCancel(parent)
	if spec.Deadline {
		// a context that ends the way an expired deadline does (the library only
		// looks at Done() and Err())
		dc := &endCtx{Context: parent, done: make(chan struct{})}
		ctx, cancel = dc, func() { dc.end(context.DeadlineExceeded) }
	}
	r.cancel = func() {
		if !r.Cancelled {
			r.Cancelled = true
			r.CancelStep = x.d.Step
			x.d.Record(taskName(), "cancel", fmt.Sprintf("rpc%d", spec.Idx))
			x.snapshotBlocked(r)
		}
		cancel()
	}
	if spec.HasMeta {
		switch spec.MetaStyle {
		case 4:
			// the context already carries an older value of one key; AddPairs overrides it
			ctx = drpcmetadata.Add(ctx, "ovr", "stale value that must be replaced")
			ctx = drpcmetadata.AddPairs(ctx, spec.Meta)
		case 3:
			// already in the parent context
		case 1:
			if x.sharedMeta == nil {
				x.sharedMeta = sharedMetaTemplate()
			}
			ctx = drpcmetadata.AddPairs(ctx, x.sharedMeta)
			for _, k := range sortedKeys(spec.MetaExtras) {
				ctx = drpcmetadata.Add(ctx, k, spec.MetaExtras[k])
			}
		case 2:
			for _, k := range sortedKeys(spec.Meta) {
				ctx = drpcmetadata.Add(ctx, k, spec.Meta[k])
			}
		default:
			ctx = drpcmetadata.AddPairs(ctx, spec.Meta)
		}
	}
	r.ctx = ctx
	if spec.Cancel {
		x.rt.Spawn(fmt.Sprintf("cancel%d", spec.Idx), func() {
			x.delay("cancel-delay", spec.CancelDelay)
			r.cancel()
		})
	}
	defer func() {
		r.ClientDone = true
		r.ClientDoneStep = x.d.Step
		x.d.Record(taskName(), "client-done", fmt.Sprintf("rpc%d", spec.Idx))
	}()

	if spec.Shape == ShUnary {
		in := &Msg{B: x.reqBytes(spec)}
		out := &Msg{}
		var err error
		failedBefore := 0
		if x.cep != nil {
			failedBefore = x.cep.FailedBy[taskName()]
		}
		r.C.InCall++
		x.call(fmt.Sprintf("Invoke rpc%d", spec.Idx), func() { err = x.cli.Invoke(ctx, spec.Name(), x.enc, in, out) })
		r.C.InCall--
		if x.cep != nil && x.cep.FailedBy[taskName()] > failedBefore {
			r.InvokeWriteFailed = true
		}
		r.InvokeDone, r.InvokeErr = true, err
		x.d.Record(taskName(), "invoke-return", fmt.Sprintf("rpc%d %s", spec.Idx, errStr(err)))
		if err == nil {
			if bytes.Equal(out.B, x.respBytes(spec)) {
				r.RespOK = true
			} else {
				x.viol("crosstalk", fmt.Sprintf("unary response mismatch rpc-shape=unary got=%s", classifyForeign(out.B, spec.Idx, dirS2C)),
					fmt.Sprintf("rpc%d got %s", spec.Idx, msgDescribe(out.B)))
			}
		}
		x.checkClientErr(r, err)
		if spec.CEnd == EndCloseCancel {
			r.cancel()
		}
		return
	}

	var st drpc.Stream
	var err error
	r.C.InCall++
	x.call(fmt.Sprintf("NewStream rpc%d", spec.Idx), func() { st, err = x.cli.NewStream(ctx, spec.Name(), x.enc) })
	r.C.InCall--
	r.NewDone, r.NewErr = true, err
	x.d.Record(taskName(), "newstream-return", fmt.Sprintf("rpc%d %s", spec.Idx, errStr(err)))
	if err != nil {
		return
	}
	r.Created = true
	r.C.st = st
	if ds, ok := st.(*drpcstream.Stream); ok {
		r.SID = ds.ID()
	}
	ops := spec.COps
	if spec.Shape == ShSStream {
		ops = append([]Op{{Kind: OpSend, Size: spec.ReqSize, Seq: seqReq}, {Kind: OpCloseSend}}, ops...)
	}
	x.runSide(r.C, ops, spec.CAux, fmt.Sprintf("cli/rpc%d", spec.Idx))
	switch spec.CEnd {
	case EndClose, EndCloseCancel:
		x.execOp(r.C, Op{Kind: OpClose})
		if spec.CEnd == EndCloseCancel {
			r.cancel()
		}
	case EndCancel:
		r.cancel()
	}
	r.C.Ended = true
}

// runSide executes the main ops of one side and starts its aux tasks.
func (x *e1) runSide(sd *sideRec, ops []Op, aux [][]Op, namePrefix string) {
	for i, a := range aux {
		a := a
		wg := &simsync.WaitGroup{}
		wg.Add(1)
		sd.auxDone = append(sd.auxDone, wg)
		x.rt.Spawn(fmt.Sprintf("%s/aux%d", namePrefix, i), func() {
			defer wg.Done()
			for _, op := range a {
				x.execOp(sd, op)
			}
		})
	}
	for _, op := range ops {
		x.execOp(sd, op)
	}
}

func (x *e1) sideName(sd *sideRec) string {
	if sd.client {
		return "c"
	}
	return "h"
}

// execOp performs one stream operation and records/checks its result.
func (x *e1) execOp(sd *sideRec, op Op) {
	r := sd.rpc
	k := r.Spec.Idx
	who := x.sideName(sd)
	st := sd.st
	switch op.Kind {
	case OpSend:
		b := msgBytes(k, sd.dir, op.Sender, op.Seq, op.Size)
		if op.Bad && len(b) > 0 {
			b[0] = 0xEE // the receiver's Unmarshal refuses it
		}
		if op.Unenc && len(b) > 0 {
			b[0] = 0xEF // the sender's Marshal refuses it
		}
		rec := &sendRec{Op: op, Start: x.d.Step, Bytes: b}
		sd.Sends = append(sd.Sends, rec)
		termAtStart := x.terminated(st)
		ep := x.sep
		if sd.client {
			ep = x.cep
		}
		failedBefore, wasFailed := ep.FailedBy[taskName()], ep.Failed()
		sd.InCall++
		x.call(fmt.Sprintf("%s.MsgSend rpc%d", who, k), func() { rec.Err = st.MsgSend(&Msg{B: b}, x.enc) })
		sd.InCall--
		if rec.Err == nil && !x.prog.Cfg.Manual && (wasFailed || ep.FailedBy[taskName()] > failedBefore) {
			x.viol("fault-send-ok", "send returned nil although a transport write it issued failed (or its endpoint had already failed)", fmt.Sprintf("rpc%d %s failed-before=%v own-failed-writes=%d", k, op, wasFailed, ep.FailedBy[taskName()]-failedBefore))
		}
		if termAtStart && r.Cancelled && sd.client && rec.Err == nil {
			x.viol("cancel-later-op", fmt.Sprintf("send issued on a cancelled, terminated rpc succeeded mode=%s", x.cancelMode()), fmt.Sprintf("rpc%d %s", k, op))
		}
		if op.Unenc && rec.Err == nil {
			x.viol("delivery", "a send whose message cannot be encoded returned nil", fmt.Sprintf("rpc%d %s", k, op))
		}
		rec.Done, rec.End = true, x.d.Step
		x.checkCancelledCall(sd, "MsgSend", rec.Start, rec.Err)
		x.d.Record(taskName(), who+".send-return", fmt.Sprintf("rpc%d s%d#%d size=%d %s", k, op.Sender, op.Seq, op.Size, errStr(rec.Err)))
		x.afterSend(sd, rec)
	case OpRecv, OpRecvAll:
		for i := 0; i < 400; i++ {
			m := &Msg{}
			var err error
			recvStart := x.d.Step
			// "later" for a receive: the stream is terminated AND a receive of this
			// side has already reported an error (Stream.terminate publishes the
			// terminated flag before it closes the receive queue, so the flag alone
			// can be observed in the middle of the termination)
			termAtStart := x.terminated(st) && sd.FirstErr != nil
			sd.InCall++
			x.call(fmt.Sprintf("%s.MsgRecv rpc%d", who, k), func() { err = st.MsgRecv(m, x.enc) })
			if termAtStart && r.Cancelled && sd.client && err == nil {
				x.viol("cancel-later-op", fmt.Sprintf("receive issued on a cancelled, terminated rpc succeeded mode=%s", x.cancelMode()), fmt.Sprintf("rpc%d", k))
			}
			sd.InCall--
			rr := &recvRec{Step: x.d.Step, Err: err}
			if err == nil {
				rr.Data = m.B
			}
			if errors.Is(err, errUndecodable) {
				// the message arrived but the application's encoding refused it:
				// it counts as the next message of the stream, the stream goes on
				sd.recvPos++
				sd.Recvs = append(sd.Recvs, rr)
				x.d.Record(taskName(), who+".recv-return", fmt.Sprintf("rpc%d undecodable message", k))
				x.res.probe("undecodable_message_received")
				if op.Kind == OpRecv {
					break
				}
				continue
			}
			x.checkCancelledCall(sd, "MsgRecv", recvStart, err)
			sd.Recvs = append(sd.Recvs, rr)
			if err == nil {
				x.d.Record(taskName(), who+".recv-return", fmt.Sprintf("rpc%d %s", k, msgDescribe(m.B)))
			} else {
				x.d.Record(taskName(), who+".recv-return", fmt.Sprintf("rpc%d err=%s", k, errStr(err)))
			}
			x.afterRecv(sd, rr)
			if err != nil || op.Kind == OpRecv {
				break
			}
		}
	case OpCloseSend:
		var err error
		sd.InCall++
		x.call(fmt.Sprintf("%s.CloseSend rpc%d", who, k), func() { err = st.CloseSend() })
		sd.InCall--
		if !sd.CloseSendDone {
			sd.CloseSendDone, sd.CloseSendErr = true, err
		}
		x.d.Record(taskName(), who+".closesend-return", fmt.Sprintf("rpc%d %s", k, errStr(err)))
	case OpClose:
		var err error
		if !sd.ClosedByMe {
			sd.ClosedByMe, sd.CloseStep = true, x.d.Step
		}
		sd.InCall++
		x.call(fmt.Sprintf("%s.Close rpc%d", who, k), func() { err = st.Close() })
		sd.InCall--
		x.d.Record(taskName(), who+".close-return", fmt.Sprintf("rpc%d %s", k, errStr(err)))
	case OpFlush:
		var err error
		if f, ok := st.(interface{ RawFlush() error }); ok {
			flushStart := x.d.Step
			sd.InCall++
			x.call(fmt.Sprintf("%s.RawFlush rpc%d", who, k), func() { err = f.RawFlush() })
			sd.InCall--
			x.d.Record(taskName(), who+".flush-return", fmt.Sprintf("rpc%d %s", k, errStr(err)))
			x.afterFlush(sd, err, flushStart)
		}
	case OpWaitCtx:
		sd.InCall++
		x.call(fmt.Sprintf("%s.WaitCtx rpc%d", who, k), func() {
			verifsim.Mark("harness:waitctx")
			<-st.Context().Done()
			verifsim.Yield(verifsim.ClassWake, "harness:waitctx")
		})
		sd.InCall--
		x.d.Record(taskName(), who+".ctx-done", fmt.Sprintf("rpc%d", k))
	case OpDelay:
		x.delay("op-delay", op.Size)
	case OpSleep:
		verifsim.Sleep("harness:sleep", time.Duration(op.Size)*100*time.Millisecond)
	case OpJoin:
		for i := 0; i < op.Size && i < len(sd.auxDone); i++ {
			sd.auxDone[i].Wait()
		}
	case OpSendErr:
		if se, ok := st.(interface{ SendError(error) error }); ok {
			var err error
			x.call(fmt.Sprintf("%s.SendError rpc%d", who, k), func() { err = se.SendError(buildErr(r.Spec.HErr)) })
			x.d.Record(taskName(), who+".senderror-return", fmt.Sprintf("rpc%d %s", k, errStr(err)))
		}
	}
}

// ---- handler side --------------------------------------------------------------------

func (x *e1) recFor(k int) *rpcRec {
	if k == 200 {
		return x.probeRec
	}
	for _, r := range x.recs {
		if r.Spec.Idx == k {
			return r
		}
	}
	return nil
}

func (x *e1) handlerStart(r *rpcRec, ctx context.Context) {
	if r.HStarted {
		x.viol("handler-twice", fmt.Sprintf("handler invoked twice for one rpc"), fmt.Sprintf("rpc%d", r.Spec.Idx))
	}
	r.HStarted, r.HStartStep, r.HCtx = true, x.d.Step, ctx
	r.HMeta, r.HMetaOK = drpcmetadata.Get(ctx)
	x.d.Record(taskName(), "handler-start", fmt.Sprintf("rpc%d meta=%s", r.Spec.Idx, fmtMap(r.HMeta)))
	x.checkMeta(r)
}

func (x *e1) handlerReturn(r *rpcRec, err error) {
	r.HReturned, r.HRetStep = true, x.d.Step
	x.lastHRetSim = x.d.SimTime
	// what the handler's context carries must still be the call's metadata when
	// the handler is done (values must not live in a buffer that is reused)
	if r.HStarted && r.Spec.HasMeta {
		x.checkMeta(r)
	}
	r.H.Ended = true
	x.d.Record(taskName(), "handler-return", fmt.Sprintf("rpc%d %s", r.Spec.Idx, errStr(err)))
}

func (x *e1) handleUnary(k int, ctx context.Context, in *Msg) (*Msg, error) {
	r := x.recFor(k)
	x.handlerStart(r, ctx)
	if in.Seen != 1 {
		x.viol("crosstalk", "handler received a request object that had been used for another request before", fmt.Sprintf("rpc%d seen=%d", k, in.Seen))
	}
	if !bytes.Equal(in.B, x.reqBytes(r.Spec)) {
		x.viol("crosstalk", fmt.Sprintf("unary request mismatch at handler got=%s", classifyForeign(in.B, k, dirC2S)),
			fmt.Sprintf("rpc%d got %s", k, msgDescribe(in.B)))
	}
	verifsim.Yield(verifsim.ClassApp, "handler-body")
	var out *Msg
	var err error
	switch r.Spec.HRet {
	case RetResp:
		out = &Msg{B: x.respBytes(r.Spec)}
	case RetErr:
		err = buildErr(r.Spec.HErr)
		if r.Spec.RespToo {
			out = &Msg{B: x.respBytes(r.Spec)}
		}
	}
	x.handlerReturn(r, err)
	return out, err
}

func (x *e1) handleStream(k int, in *Msg, st drpc.Stream) error {
	r := x.recFor(k)
	x.handlerStart(r, st.Context())
	r.H.st = st
	if in != nil && in.Seen != 1 {
		x.viol("crosstalk", "handler received a request object that had been used for another request before", fmt.Sprintf("rpc%d seen=%d", k, in.Seen))
	}
	if in != nil && !bytes.Equal(in.B, x.reqBytes(r.Spec)) {
		x.viol("crosstalk", fmt.Sprintf("stream request mismatch at handler got=%s", classifyForeign(in.B, k, dirC2S)),
			fmt.Sprintf("rpc%d got %s", k, msgDescribe(in.B)))
	}
	x.runSide(r.H, r.Spec.HOps, r.Spec.HAux, fmt.Sprintf("h/rpc%d", k))
	var err error
	if r.Spec.HRet == RetErr {
		err = buildErr(r.Spec.HErr)
	}
	x.handlerReturn(r, err)
	return err
}

// classifyForeign describes, schedule independently, what a wrong message is.
func classifyForeign(b []byte, wantRPC, wantDir int) string {
	rpc, dir, _, _, size, ok := msgHeader(b)
	switch {
	case !ok:
		return "garbled"
	case rpc != wantRPC:
		return "other-rpc"
	case dir != wantDir:
		return "wrong-direction"
	case size != len(b):
		return "wrong-length"
	}
	return "wrong-content"
}

// ---- probe -----------------------------------------------------------------------------

func (x *e1) runProbe() {
	r := x.probeRec
	x.probeStart = x.d.Step
	x.rt.Spawn("probe", func() {
		ctx, cancel := context.WithCancel(context.Background())
		defer cancel()
		in := &Msg{B: x.reqBytes(r.Spec)}
		out := &Msg{}
		var err error
		r.C.InCall++
		x.call("Invoke probe", func() { err = x.cli.Invoke(ctx, r.Spec.Name(), x.enc, in, out) })
		r.C.InCall--
		r.InvokeDone, r.InvokeErr = true, err
		r.RespOK = err == nil && bytes.Equal(out.B, x.respBytes(r.Spec))
		r.ClientDone = true
		x.d.Record(taskName(), "probe-return", errStr(err))
	})
}

// ---- the run ------------------------------------------------------------------------------

func isEOF(err error) bool { return err == io.EOF }

func (x *e1) clockActions() []time.Duration {
	if x.prog.Cfg.Inactivity > 0 || x.prog.Cfg.Serve {
		return []time.Duration{600 * time.Millisecond}
	}
	return nil
}

func errCode(err error) uint64 { return drpcerr.Code(err) }

func containsAny(s string, subs ...string) bool {
	for _, sub := range subs {
		if strings.Contains(s, sub) {
			return true
		}
	}
	return false
}

func (x *e1) terminated(st drpc.Stream) bool {
	if ds, ok := st.(*drpcstream.Stream); ok {
		return ds.IsTerminated()
	}
	return false
}

// snapshotBlocked records which client calls of rpc r are durably blocked at the
// instant its context is cancelled (C04: those must report the context's error).
func (x *e1) snapshotBlocked(r *rpcRec) {
	r.atCancel = map[string]blockedCall{}
	for _, t := range x.rt.Tasks() {
		if t.State != verifsim.StWaiting || t.API == "" || strings.HasPrefix(t.API, "h.") {
			continue
		}
		if apiRPC(t.API) != r.Spec.Idx {
			continue
		}
		r.atCancel[t.Name] = blockedCall{t.Name, t.API, whereClass(t.Label)}
	}
}

// checkCancelledCall: a receive that was blocked waiting for a message, and (hard
// mode) a send that was blocked in the transport, when the context was
// cancelled must return the context's error.
func (x *e1) checkCancelledCall(sd *sideRec, verb string, start int, err error) {
	r := sd.rpc
	if !sd.client || r.atCancel == nil {
		return
	}
	bc, ok := r.atCancel[taskName()]
	if !ok {
		return
	}
	delete(r.atCancel, taskName())
	if start >= r.CancelStep || !strings.Contains(bc.API, verb) {
		return
	}
	switch {
	case verb == "MsgRecv" && bc.Where == "cond:Get":
		x.res.probe("cancel_while_recv_blocked")
		if sd.ClosedByMe {
			return // the application's own Close races with the cancel: either error is fine
		}
		// (when the connection went away for another reason first, the manager cancels the stream with context.Canceled)
		connGone := x.phase == "q4" || x.serveDone || x.sep.IsClosed() || x.cep.IsClosed() || x.ioFired() || x.transportClosedByHarness() || x.closeStep > 0 || connClosed(x.conn)
		if _, srvCancel := x.did["serve-cancel"]; err != nil && isCtxErr(err) && r.ctx.Err() != nil && !errors.Is(err, r.ctx.Err()) && !srvCancel && !connGone {
			x.viol("cancel-error", fmt.Sprintf("receive blocked at cancel reports a different context error than the context's own mode=%s", x.cancelMode()), fmt.Sprintf("got %v want %v", err, r.ctx.Err()))
		}
		if err == nil || !isCtxErr(err) {
			// a message or another terminal event may legitimately win the race;
			// only a non-context *error* that is not end-of-stream/handler error is wrong
			if err != nil && !errors.Is(err, io.EOF) && err.Error() != "EOF" && !isHandlerText(err) && !strings.Contains(err.Error(), "closed") {
				x.viol("cancel-error", fmt.Sprintf("receive blocked at cancel returned a foreign error mode=%s class=%s", x.cancelMode(), errClass(err)), errStr(err))
			}
		}
	case verb == "MsgSend" && bc.Where == "net.write" && !x.prog.Cfg.SoftC:
		x.res.probe("cancel_while_send_parked")
		// io.EOF is the documented result of a send on a stream that is already
		// cancelled (the parked write may have completed before the transport
		// was closed); anything else must be the context's error
		// (if the connection went away for another reason at the same time, that reason may win)
		otherCause := x.phase == "q4" || x.serveDone || x.sep.IsClosed() || x.ioFired() || x.transportClosedByHarness() || x.closeStep > 0
		// the peer's own Close/return may reach the stream before the cancel is
		// processed; the send then reports that the remote closed the stream
		peerEnded := errClass(err) == "closed" && r.H != nil && (r.H.ClosedByMe || r.HReturned)
		if err != nil && !isCtxErr(err) && !errors.Is(err, io.EOF) && !sd.ClosedByMe && !otherCause && !peerEnded {
			x.viol("cancel-error", fmt.Sprintf("send blocked in the transport at cancel returned %s instead of the context error (default mode)", errClass(err)), errStr(err))
		}
	}
}


// endCtx is a context the harness ends with an error of its choice.
type endCtx struct {
	context.Context
	done chan struct{}
	err  error
}

func (c *endCtx) Done() <-chan struct{} { return c.done }
func (c *endCtx) Err() error           { return c.err }
func (c *endCtx) end(err error) {
	if c.err == nil {
		c.err = err
		close(c.done)
	}
}
