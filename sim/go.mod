module verifharness

go 1.26.8

require (
	github.com/anishathalye/porcupine v1.3.0
	github.com/gogo/protobuf v1.3.2
	github.com/zeebo/errs v1.2.2
	storj.io/drpc v0.0.0
)

replace storj.io/drpc => /repo
