package sim

import (
	"context"
	"fmt"
	"strings"
	"time"

	"storj.io/drpc"
	"storj.io/drpc/drpcconn"
	"storj.io/drpc/drpcmux"
	"storj.io/drpc/drpcpool"
	"storj.io/drpc/drpcserver"
	"storj.io/drpc/verifsim"
)

// The pooled family of rpc-sim: client scripts call a drpcpool pool connection
// (pool.Get) whose dial function creates REAL drpcconn connections over fresh
// simulated pipes accepted by a real drpcserver.Serve. It exercises poolConn
// (Invoke/NewStream/monitorStream/Close), Take/Put with real Closed()/Unblocked()
// channels under soft cancel, and the pool's expiry on the fake clock.

type pooledConn struct {
	c      *drpcconn.Conn
	a, b   *Endpoint
	monC   *WireMonitor
	dialed int
}

type pooledState struct {
	pool   *drpcpool.Pool[string, drpcpool.Conn]
	opts   drpcpool.Options
	conns  []*pooledConn
	closes int
	closePanic string
}

func (x *e1) setupPooled() {
	c := x.prog.Cfg
	x.net = &Net{D: x.d, RT: x.rt, Ch: x.ch, TCPStyle: c.TCP, EmptyReads: c.EmptyReads}
	x.monC = &WireMonitor{Name: "client"}
	x.monS = &WireMonitor{Name: "server"}
	ps := &pooledState{}
	x.pooled = ps
	ps.opts = drpcpool.Options{
		Capacity:    []int{0, 1, 2, -1}[x.ch.Weighted("cfg", []int{3, 3, 2, 1})],
		KeyCapacity: []int{0, 1, 2}[x.ch.Weighted("cfg", []int{3, 3, 1})],
		Expiration:  []time.Duration{0, time.Second}[x.ch.Weighted("cfg", []int{2, 2})],
	}
	ps.pool = drpcpool.New[string, drpcpool.Conn](ps.opts)
	x.net.OnWrite = func(e *Endpoint, p []byte) {
		for _, pc := range ps.conns {
			if e == pc.a {
				pc.monC.Write(p)
			}
		}
	}

	mux := drpcmux.New()
	for _, r := range x.prog.RPCs {
		if err := mux.Register(&rpcSrv{x, r.Idx}, rpcDesc{r.Idx}); err != nil {
			panic(err)
		}
		x.recs = append(x.recs, x.newRec(r))
	}
	probeSpec := &RPCSpec{Idx: 200, Shape: ShUnary, ReqSize: 16, Resp: 16, HRet: RetResp}
	x.probeRec = x.newRec(probeSpec)
	x.probeRec.probe = true
	if err := mux.Register(&rpcSrv{x, 200}, rpcDesc{200}); err != nil {
		panic(err)
	}
	srv := drpcserver.NewWithOptions(mux, drpcserver.Options{
		Manager: x.managerOptions(c.SoftS),
		Log:     func(err error) { x.srvLog = append(x.srvLog, errStr(err)) },
	})
	x.srvCtx, x.srvCancel = context.WithCancel(context.Background())
	x.lis = x.net.NewListener("lis0")
	x.rt.Spawn("srv", func() {
		err := srv.Serve(x.srvCtx, x.lis)
		x.serveDone, x.serveErr, x.serveStep, x.serveSim = true, err, x.d.Step, x.d.SimTime
		x.d.Record(taskName(), "serve-return", errStr(err))
	})

	dial := func(ctx context.Context, key string) (drpcpool.Conn, error) {
		n := len(ps.conns)
		a, b := x.net.Pipe(fmt.Sprintf("conn%d", n), c.NetCap)
		pc := &pooledConn{a: a, b: b, monC: &WireMonitor{Name: fmt.Sprintf("client%d", n)}}
		ps.conns = append(ps.conns, pc)
		if x.cep == nil {
			x.cep, x.sep = a, b
		}
		x.lis.Push(b)
		pc.c = drpcconn.NewWithOptions(a, drpcconn.Options{Manager: x.managerOptions(c.SoftC)})
		if x.conn == nil {
			x.conn = pc.c
		}
		x.d.Record(taskName(), "dial", fmt.Sprintf("conn%d", n))
		x.res.probe("pooled_dials")
		return &trackConn{Conn: pc.c}, nil
	}
	x.cli = ps.pool.Get(context.Background(), "k", dial)
	// sometimes the application closes its pool connection in the middle of the
	// run (streams it started go on) and continues with a fresh one for the same key
	if x.ch.Bool("cfg", 0.25) {
		delay := x.ch.Pick("cfg", 60)
		x.rt.Spawn("early-close", func() {
			x.delay("early-close-delay", delay)
			old := x.cli
			x.cli = ps.pool.Get(context.Background(), "k", dial)
			x.call("PoolConn.Close(early)", func() { _ = old.Close() })
			x.res.probe("pool_conn_closed_mid_run")
		})
	}

	x.rt.Spawn("cli-init", func() {
		for j := 0; j < x.prog.NTasks; j++ {
			j := j
			x.cliTasksWG.Add(1)
			x.rt.Spawn(fmt.Sprintf("cli%d", j), func() {
				defer x.cliTasksWG.Done()
				for _, r := range x.recs {
					if r.Spec.Task == j {
						x.runClientRPC(r)
					}
				}
			})
		}
	})
}

// poolBounds is evaluated after every step (pool lock free): C15 bounds on the
// pool that caches real connections.
func (x *e1) poolBounds() {
	ps := x.pooled
	st := ps.pool.VerifState()
	if st.Locked {
		return
	}
	if st.Cyclic || st.OrderCount != len(st.Order) || !st.OrderBackOK || !st.KeysBackOK {
		x.viol("pool-bounds", "pool lists inconsistent (count/length/back-links)", fmt.Sprintf("count=%d len=%d", st.OrderCount, len(st.Order)))
	}
	if ps.opts.Capacity > 0 && len(st.Order) > ps.opts.Capacity {
		x.viol("pool-bounds", "pool caches more than Capacity connections", fmt.Sprintf("%d > %d", len(st.Order), ps.opts.Capacity))
	}
	if ps.opts.Capacity < 0 && len(st.Order) > 0 {
		x.viol("pool-bounds", "pool with negative capacity caches a connection", "")
	}
	// a cached connection is not in use: the pool gets a connection back only when
	// the call or stream that took it has ended
	// (a cancelled call may leave its connection blocked for a moment; a stream
	// whose context is not done yet is in progress for sure)
	for _, v := range st.Order {
		if tc, ok := v.(*trackConn); ok {
			for _, s := range tc.streams {
				if !sigClosed(s.Context().Done()) {
					x.viol("pool-bounds", "a connection with a stream still in progress is in the pool's cache", "")
				}
			}
		}
	}
	for k, l := range st.Keys {
		if ps.opts.KeyCapacity > 0 && len(l) > ps.opts.KeyCapacity {
			x.viol("pool-bounds", "pool caches more than KeyCapacity connections for one key", fmt.Sprintf("key=%s %d > %d", k, len(l), ps.opts.KeyCapacity))
		}
	}
}

// runE1Pooled is the run driver of the pooled family.
func (x *e1) runPooled(finish func() *RunResult) *RunResult {
	res := x.res
	x.setupPooled()
	x.d.AfterStep = func() bool { x.poolBounds(); return false }
	q := x.d.Run()
	x.checkPanics()
	if !q {
		res.Inconcl = true
		return finish()
	}
	x.d.Logf("QUIESCENT q1 step=%d", x.d.Step)
	clientsDone := true
	for _, r := range x.recs {
		if !r.ClientDone {
			clientsDone = false
		}
	}
	handlersDone := true
	for _, r := range x.recs {
		if r.HStarted && !r.HReturned {
			handlersDone = false
		}
	}
	if !clientsDone && handlersDone {
		x.viol("pooled-hang", "client call through a pool connection blocked for ever: "+x.stuckSummary(), fmt.Sprint(x.blockedCalls(), x.libCensus()))
	}
	if clientsDone {
		// a pool connection can always serve one more rpc: it takes a usable cached
		// connection or dials a new one
		x.runProbe()
		if !x.d.Run() {
			res.Inconcl = true
			return finish()
		}
		x.checkPanics()
		r := x.probeRec
		switch {
		case r.InvokeDone && r.InvokeErr == nil && r.RespOK:
			res.probe("probe_ok")
		case r.InvokeDone && r.InvokeErr != nil:
			x.viol("pooled-probe", "rpc through the pool connection failed although nothing was closed: err-class="+errClass(r.InvokeErr), errStr(r.InvokeErr))
		case !r.InvokeDone && handlersDone:
			x.viol("pooled-probe", "rpc through the pool connection blocked for ever: "+x.keyState(), fmt.Sprint(x.blockedCalls(), x.libCensus()))
		}
	}
	// teardown: close the pool connection (possibly twice, possibly concurrently),
	// the pool, and the server
	twice := x.ch.Bool("cfg", 0.5)
	closeOnce := func() {
		defer func() {
			if r := recover(); r != nil {
				x.pooled.closePanic = fmt.Sprint(r)
			}
		}()
		x.call("PoolConn.Close", func() { _ = x.cli.Close() })
		x.pooled.closes++
	}
	x.rt.Spawn("teardown", func() {
		closeOnce()
		if twice {
			closeOnce()
		}
		x.call("Pool.Close", func() { _ = x.pooled.pool.Close() })
		x.srvCancel()
	})
	if !x.d.Run() {
		res.Inconcl = true
		return finish()
	}
	x.checkPanics()
	if x.pooled.closePanic != "" {
		x.viol("pooled-close", "closing a pool connection twice panics: "+trunc(x.pooled.closePanic, 60), "")
	}
	// after every rpc has ended, pool and server closed: every dialed connection is
	// closed (handed back and closed by the pool, or closed because it failed) and
	// no task is left
	if clientsDone && handlersDone {
		for i, pc := range x.pooled.conns {
			if !connClosed(pc.c) {
				x.viol("pooled-conn-leak", "a connection dialed through the pool is still open after the pool was closed (neither cached nor closed)", fmt.Sprintf("conn%d", i))
			}
		}
		var left []string
		for _, t := range x.rt.Tasks() {
			if t.State != verifsim.StExited && t.State != verifsim.StPending {
				left = append(left, x.roleOfTask(t.Name)+"@"+whereClass(t.Label))
			}
		}
		if len(left) > 0 {
			x.viol("pooled-leak", "tasks left after closing pool connection, pool and server: "+strings.Join(dedupSorted(stripNumsAll(left)), " "), strings.Join(left, " "))
		}
	}
	for _, pc := range x.pooled.conns {
		for _, v := range pc.monC.Viol {
			x.viol("wire", "client wire: "+stripNums(v), v)
		}
	}
	res.Nontrivial = x.nontrivial()
	return finish()
}

func dedupSorted(in []string) []string {
	m := map[string]bool{}
	for _, s := range in {
		m[s] = true
	}
	return sortedKeys(m)
}

// trackConn is what the dial function hands to the pool: the real connection,
// remembering the streams started on it.
type trackConn struct {
	*drpcconn.Conn
	streams []drpc.Stream
}

func (t *trackConn) NewStream(ctx context.Context, rpc string, enc drpc.Encoding) (drpc.Stream, error) {
	s, err := t.Conn.NewStream(ctx, rpc, enc)
	if err == nil {
		t.streams = append(t.streams, s)
	}
	return s, err
}
