package sim

import (
	"bytes"
	"context"
	"fmt"
	"io"
	"net"
	"sort"
	"strings"

	"storj.io/drpc/drpcmigrate"
	"storj.io/drpc/verifsim"
	"storj.io/drpc/verifsim/simsync"
)

func init() { engines["mux-sim"] = runE5 }

type muxDial struct {
	id      int
	prefix  string // first bytes the client sends (may be shorter than the mux prefix length)
	body    []byte
	full    []byte   // everything the client will send (prefix+body), without a header conn's header
	splits  []int    // write sizes
	header  string   // non-empty: write through a HeaderConn carrying this header (the header is the routed prefix)
	writers int      // concurrent writers (header conn)
	short   bool     // sends fewer than prefixLen bytes, then closes
	a, b    *Endpoint
	pushed  bool
	pushStep int
	sent    []byte // what the client end actually handed to the transport, in order
	closedByClient bool
	// delivery
	accepted  []string // names of listeners whose Accept returned this connection
	got       map[string][]byte
	readErr   map[string]error
	wroteN    []int // (n returned, len requested) pairs for header conn writes
	wroteLen  []int
	writeFailed bool
	ping      bool // after writing everything the client waits for a one-byte reply before it closes
	delayN    int  // scheduling points before the dial is pushed
	wroteAll  bool
	soFar     map[string]int // bytes read so far per accepting listener
	pingErr   error
	pinged    bool
}

type e5 struct {
	spec RunSpec
	res  *RunResult
	ch   *Choices
	rt   *verifsim.Runtime
	d    *Director
	net  *Net
	base *Listener
	mux  *drpcmigrate.ListenMux
	n    int
	routes     []string
	routeLis   map[string]net.Listener
	routeRegStep map[string]int
	routeClosedStep map[string]int
	dials   []*muxDial
	cancel  context.CancelFunc
	stopStep int
	runDone bool
	runErr  error
	acceptErrs map[string]error
	connOf  map[net.Conn]*muxDial
	postRunAccepted bool
	noAcc   map[string]bool // listeners (route prefix or "default") on which nobody calls Accept
	reRouteStep map[string]int // step at which a second Route(p) handed out a fresh listener
}

func (x *e5) viol(oracle, sig, detail string) {
	x.d.Logf("  VIOL %s %s", oracle, sig)
	for _, v := range x.res.Viol {
		if v.Sig == sig {
			return
		}
	}
	x.res.Viol = append(x.res.Viol, Violation{Prop: x.spec.Prop, Oracle: oracle, Sig: sig, Detail: detail, Step: x.d.Step})
}

func (x *e5) call(desc string, f func()) {
	_, t := verifsim.Current()
	verifsim.Yield(verifsim.ClassApp, desc)
	if t != nil {
		t.SetAPI(desc)
	}
	f()
	if t != nil {
		t.SetAPI("")
	}
}

// dialOf finds the dial a connection handed out by a listener belongs to: the
// mux may wrap the base connection, so compare by remote address.
func (x *e5) dialOf(c net.Conn) *muxDial {
	for _, dl := range x.dials {
		if c.RemoteAddr().String() == dl.b.RemoteAddr().String() {
			return dl
		}
	}
	return nil
}

func (x *e5) acceptor(name string, lis net.Listener, max int) {
	for i := 0; i < max; i++ {
		var c net.Conn
		var err error
		x.call("Accept "+name, func() { c, err = lis.Accept() })
		if err != nil {
			x.acceptErrs[name] = err
			x.d.Logf("  accept %s -> err %v", name, errStr(err))
			return
		}
		dl := x.dialOf(c)
		if dl == nil {
			x.viol("routing", "listener returned a connection that no client dialed", name)
			continue
		}
		dl.accepted = append(dl.accepted, name)
		x.d.Logf("  accept %s -> conn%d", name, dl.id)
		// read everything the client sends until it closes
		c2 := c
		x.rt.Spawn(fmt.Sprintf("reader-%s-conn%d", name, dl.id), func() {
			var buf bytes.Buffer
			p := make([]byte, 64)
			replied := false
			for {
				var n int
				var err error
				x.call("Read "+name, func() { n, err = c2.Read(p) })
				buf.Write(p[:n])
				dl.soFar[name] = buf.Len()
				if err != nil {
					dl.readErr[name] = err
					break
				}
				want := len(dl.full)
				if name != "default" {
					want -= x.n
				}
				if dl.ping && !replied && buf.Len() >= want {
					replied = true
					x.call("Reply "+name, func() { _, _ = c2.Write([]byte{'!'}) })
				}
			}
			dl.got[name] = buf.Bytes()
			// the server side closes what it accepted, sometimes twice (Close is idempotent)
			for i := 0; i < 1+dl.id%2; i++ {
				x.call("CloseAccepted "+name, func() { _ = c2.Close() })
			}
		})
	}
}

func (x *e5) dialer(dl *muxDial) {
	x.delay(dl.id%5 + dl.delayN)
	x.call("push", func() {
		dl.pushed, dl.pushStep = true, x.d.Step
		x.base.Push(dl.b)
	})
	var w io.Writer = dl.a
	if dl.header != "" {
		// the underlying connection offers io.ReaderFrom, as *net.TCPConn does
		hc := drpcmigrate.NewHeaderConn(rfConn{dl.a}, dl.header)
		w = hc
	}
	data := dl.full
	if dl.header != "" {
		data = dl.body
	}
	if dl.writers <= 1 {
		off := 0
		for _, s := range dl.splits {
			if off >= len(data) {
				break
			}
			end := off + s
			if end > len(data) {
				end = len(data)
			}
			chunk := data[off:end]
			var n int
			var err error
			x.call(fmt.Sprintf("Write conn%d", dl.id), func() { n, err = w.Write(chunk) })
			if err != nil {
				dl.writeFailed = true
				break
			}
			dl.wroteN, dl.wroteLen = append(dl.wroteN, n), append(dl.wroteLen, len(chunk))
			off = end
		}
	} else {
		// several writers share the header conn; each writes one tagged chunk
		var wg simsync.WaitGroup
		per := (len(data) + dl.writers - 1) / dl.writers
		for i := 0; i < dl.writers; i++ {
			i := i
			lo, hi := i*per, (i+1)*per
			if lo > len(data) {
				lo = len(data)
			}
			if hi > len(data) {
				hi = len(data)
			}
			chunk := data[lo:hi]
			wg.Add(1)
			x.rt.Spawn(fmt.Sprintf("writer-conn%d-%d", dl.id, i), func() {
				defer wg.Done()
				var n int
				var err error
				x.call(fmt.Sprintf("Write conn%d", dl.id), func() {
					if (dl.id+i)%2 == 1 {
						// some writers go through io.Copy, which prefers a ReadFrom of the destination
						var n64 int64
						n64, err = io.Copy(w, struct{ io.Reader }{bytes.NewReader(chunk)}) // no WriterTo short-cut
						n = int(n64)
						return
					}
					n, err = w.Write(chunk)
				})
				if err != nil {
					dl.writeFailed = true
					return
				}
				dl.wroteN, dl.wroteLen = append(dl.wroteN, n), append(dl.wroteLen, len(chunk))
			})
		}
		wg.Wait()
	}
	dl.wroteAll = !dl.writeFailed
	if dl.ping && dl.wroteAll {
		one := make([]byte, 1)
		x.call(fmt.Sprintf("ReadReply conn%d", dl.id), func() { _, dl.pingErr = io.ReadFull(dl.a, one) })
		dl.pinged = dl.pingErr == nil
	}
	x.delay(2)
	x.call(fmt.Sprintf("Close conn%d", dl.id), func() { dl.a.Close() })
	dl.closedByClient = true
}

// rfConn is a connection with the io.ReaderFrom fast path real TCP connections have.
type rfConn struct{ net.Conn }

func (c rfConn) ReadFrom(r io.Reader) (int64, error) {
	data, err := io.ReadAll(r)
	if err != nil {
		return 0, err
	}
	n, err := c.Conn.Write(data)
	return int64(n), err
}

func (x *e5) delay(n int) {
	for i := 0; i < n; i++ {
		verifsim.Yield(verifsim.ClassApp, "delay")
	}
}

func runE5(spec RunSpec, ch *Choices) *RunResult {
	res := &RunResult{Index: spec.Index, Seed: spec.Seed, Engine: "mux-sim", Mode: spec.Prop}
	x := &e5{spec: spec, res: res, ch: ch, routeLis: map[string]net.Listener{}, routeRegStep: map[string]int{}, routeClosedStep: map[string]int{}, acceptErrs: map[string]error{}}
	classes := uint32(0)
	if ch.Bool("cfg", 0.5) {
		classes |= verifsim.ClassLock
	}
	x.rt = verifsim.New(classes)
	x.rt.SelectChoice = func(t *verifsim.Task, k int, n uint32) uint32 { return uint32(ch.Draw("sel:"+t.Name, int(n), nil)) }
	verifsim.Attach(x.rt)
	defer verifsim.Detach()
	x.d = NewDirector(x.rt, ch, 20000)
	x.d.Verbose = spec.Verbose
	x.d.DrawPolicy()
	x.net = &Net{D: x.d, RT: x.rt, Ch: ch}
	x.base = x.net.NewListener("base")
	x.n = 1 + ch.Pick("cfg", 8)
	x.mux = drpcmigrate.NewListenMux(x.base, x.n)
	mkPrefix := func(i int) string {
		return (fmt.Sprintf("R%d", i) + "XXXXXXXX")[:x.n]
	}
	nroutes := 1 + ch.Pick("cfg", 3)
	if x.n == 1 && nroutes > 2 {
		nroutes = 2
	}
	lateRoutes := 0
	var desc []string
	for i := 0; i < nroutes; i++ {
		p := mkPrefix(i)
		if x.n == 1 {
			p = string(rune('A' + i))
		}
		x.routes = append(x.routes, p)
	}
	stop := []string{"cancel", "base-error", "none"}[ch.Weighted("cfg", []int{3, 2, 2})]
	desc = append(desc, fmt.Sprintf("prefixLen=%d routes=%q stop=%s", x.n, x.routes, stop))

	ctx, cancel := context.WithCancel(context.Background())
	x.cancel = cancel

	ndial := 2 + ch.Pick("cfg", 5)
	for i := 0; i < ndial; i++ {
		st := fmt.Sprintf("dial%d", i)
		dl := &muxDial{id: i, got: map[string][]byte{}, readErr: map[string]error{}, soFar: map[string]int{}}
		dl.a, dl.b = x.net.Pipe(fmt.Sprintf("conn%d", i), -1)
		body := []byte(fmt.Sprintf("conn%d:", i))
		for j := 0; j < ch.Pick(st, 40); j++ {
			body = append(body, byte('a'+(i+j)%26))
		}
		dl.body = body
		kind := ch.Weighted(st, []int{4, 2, 1, 3})
		switch kind {
		case 0: // registered prefix
			dl.prefix = x.routes[ch.Pick(st, len(x.routes))]
		case 1: // unregistered prefix
			dl.prefix = ("ZZZZZZZZZ")[:x.n]
		case 2: // short then close
			dl.short = true
			dl.prefix = ("ZZZZZZZZZ")[:ch.Pick(st, x.n)]
			dl.body = nil
		case 3: // header conn carrying a registered prefix as header
			dl.header = x.routes[ch.Pick(st, len(x.routes))]
			dl.prefix = dl.header
			dl.writers = 1 + ch.Pick(st, 3)
		}
		if !dl.short && dl.header == "" {
			if ch.Bool(st, 0.15) {
				dl.body = nil // the client's bytes end exactly at the prefix boundary
			}
			dl.ping = ch.Bool(st, 0.4)
		}
		if ch.Bool(st, 0.3) {
			dl.delayN = ch.Pick(st, 60)
		}
		dl.full = append([]byte(dl.prefix), dl.body...)
		left := len(dl.full)
		for left > 0 {
			s := 1 + ch.Pick(st, 12)
			dl.splits = append(dl.splits, s)
			left -= s
		}
		dl.splits = append(dl.splits, 1<<20)
		x.dials = append(x.dials, dl)
		desc = append(desc, fmt.Sprintf("dial%d prefix=%q body=%d short=%v header=%v writers=%d ping=%v delay=%d splits=%v", i, dl.prefix, len(dl.body), dl.short, dl.header != "", dl.writers, dl.ping, dl.delayN, dl.splits[:min(len(dl.splits), 6)]))
	}
	// record what clients hand to the transport
	x.net.OnAccept = func(e *Endpoint, p []byte) {
		for _, dl := range x.dials {
			if e == dl.a {
				dl.sent = append(dl.sent, p...)
			}
		}
	}
	res.Desc = desc
	x.d.Logf("RUN seed=%d index=%d engine=mux-sim policy=%s", spec.Seed, spec.Index, policyNames[x.d.Policy])
	for _, l := range desc {
		x.d.Logf("  %s", l)
	}

	x.noAcc, x.reRouteStep = map[string]bool{}, map[string]int{}
	for _, p := range x.routes {
		if ch.Bool("cfg", 0.15) {
			x.noAcc[p] = true
		}
	}
	if ch.Bool("cfg", 0.15) {
		x.noAcc["default"] = true
	}
	reRoute := ch.Bool("cfg", 0.5)
	if len(x.noAcc) > 0 {
		desc = append(desc, fmt.Sprintf("no-acceptor=%v", x.noAcc))
		x.d.Logf("  no-acceptor=%v", x.noAcc)
	}
	register := func(p string) {
		var lis net.Listener
		x.call("Route "+p, func() { lis = x.mux.Route(p) })
		x.routeLis[p] = lis
		x.routeRegStep[p] = x.d.Step
		if !x.noAcc[p] {
			x.rt.Spawn("acceptor-"+p, func() { x.acceptor(p, lis, 10) })
		}
	}
	x.rt.Spawn("setup", func() {
		for i, p := range x.routes {
			if i > 0 && ch.Bool("cfg", 0.3) {
				lateRoutes++
				p := p
				x.rt.Spawn("late-route-"+p, func() { x.delay(3 + i*4); register(p) })
				continue
			}
			register(p)
		}
		if !x.noAcc["default"] {
			x.rt.Spawn("acceptor-default", func() { x.acceptor("default", x.mux.Default(), 10) })
		}
		x.rt.Spawn("run", func() {
			err := x.mux.Run(ctx)
			x.runDone, x.runErr = true, err
			x.d.Logf("  run returned %v", errStr(err))
		})
		for _, dl := range x.dials {
			dl := dl
			x.rt.Spawn(fmt.Sprintf("dialer%d", dl.id), func() { x.dialer(dl) })
		}
		if ch.Bool("cfg", 0.3) && len(x.routes) > 0 {
			p := x.routes[ch.Pick("cfg", len(x.routes))]
			x.rt.Spawn("route-closer", func() {
				x.delay(4 + ch.Pick("cfg", 30))
				if lis := x.routeLis[p]; lis != nil {
					x.routeClosedStep[p] = x.d.Step
					x.call("Close route "+p, func() { lis.Close() })
					if reRoute {
						// register the prefix again: either the closed listener comes
						// back (its Accept fails) or a fresh one that stays registered
						x.delay(ch.Pick("cfg", 6))
						var lis2 net.Listener
						x.call("Route again "+p, func() { lis2 = x.mux.Route(p) })
						if lis2 != lis {
							x.reRouteStep[p] = x.d.Step
							x.res.probe("reroute_fresh_listener")
							x.d.Logf("  route %s registered again with a fresh listener", p)
						}
						if !x.noAcc[p] {
							x.rt.Spawn("acceptor-"+p, func() { x.acceptor(p, lis2, 10) })
						}
					}
				}
			})
		}
		if stop != "none" {
			x.rt.Spawn("stopper", func() {
				x.delay(ch.Pick("cfg", 60))
				x.stopStep = x.d.Step
				x.d.Logf("  stop %s", stop)
				if stop == "cancel" {
					cancel()
				} else {
					x.base.PushErr(errInjected)
				}
			})
		}
	})
	q := x.d.Run()
	if q && x.runDone {
		// a route asked for after Run returned: its Accept fails, it does not block
		x.rt.Spawn("post-run-route", func() {
			var lis net.Listener
			x.call("Route after Run returned", func() { lis = x.mux.Route(mkPrefix(7)) })
			var err error
			x.call("Accept post-run", func() { _, err = lis.Accept() })
			x.acceptErrs["post-run"] = err
			x.postRunAccepted = true
		})
		q = x.d.Run()
		if q && !x.postRunAccepted {
			x.viol("stop", "Accept on a route registered after Run returned blocks for ever", "")
		}
	}
	if q {
		x.checkRouting(stop != "none" && x.stopStep > 0)
		// teardown: stop the mux; everything must exit
		x.rt.Spawn("teardown", func() {
			cancel()
			for _, dl := range x.dials {
				if !dl.closedByClient {
					dl.a.Close()
				}
			}
		})
		q = x.d.Run()
	}
	for _, t := range x.rt.Tasks() {
		if t.Panic != nil {
			x.viol("panic", "panic: "+trunc(fmt.Sprint(t.Panic), 80), t.Name+"\n"+t.Stack)
		}
	}
	if !q {
		res.Inconcl = true
	} else {
		var left []string
		for _, t := range x.rt.Tasks() {
			if t.State != verifsim.StExited && t.State != verifsim.StPending {
				left = append(left, roleE5(t.Name)+"@"+whereClass(t.Label))
			}
		}
		if len(left) > 0 {
			sort.Strings(left)
			x.viol("stop", "after the multiplexer stopped and all clients closed, tasks are still blocked: "+strings.Join(dedup(left), " "), strings.Join(left, " "))
		}
		if !x.runDone {
			x.viol("stop", "Run did not return after its context was cancelled", "")
		}
	}
	res.Hash = x.d.LogHash()
	res.Steps = x.d.Step
	res.States = len(x.d.States)
	for s := range x.d.States {
		res.StateSet = append(res.StateSet, s)
	}
	res.Preempt = x.d.Preempt
	res.Lines = x.d.Lines
	res.Decisions = x.d.Decisions
	res.Draws = ch.Draws
	res.Nontrivial = x.d.Preempt > 0
	res.probeN("late_routes", lateRoutes)
	return res
}

func dedup(in []string) []string {
	var out []string
	for i, s := range in {
		if i == 0 || s != in[i-1] {
			out = append(out, s)
		}
	}
	return out
}

func roleE5(name string) string {
	last := name
	if i := strings.LastIndexByte(name, '/'); i >= 0 {
		last = name[i+1:]
	}
	if i := strings.IndexByte(last, '#'); i >= 0 {
		last = last[:i]
	}
	for _, p := range []string{"acceptor", "reader", "dialer", "writer", "late-route"} {
		if strings.HasPrefix(last, p) {
			return p
		}
	}
	return last
}

// checkRouting evaluates the routing oracle at global quiescence.
func (x *e5) checkRouting(stopped bool) {
	for _, dl := range x.dials {
		if !dl.pushed {
			continue
		}
		id := fmt.Sprintf("conn%d", dl.id)
		// header conn: header exactly once, first, and every write fully reported
		if dl.header != "" {
			total := 0
			for i := range dl.wroteN {
				total += dl.wroteLen[i]
				if dl.wroteN[i] != dl.wroteLen[i] && !stopped {
					x.viol("header", "HeaderConn.Write reported a wrong byte count", fmt.Sprintf("%s n=%d len=%d", id, dl.wroteN[i], dl.wroteLen[i]))
				}
			}
			if len(dl.sent) > 0 {
				if !bytes.HasPrefix(dl.sent, []byte(dl.header)) {
					x.viol("header", "header is not the first thing on the wire", fmt.Sprintf("%s sent=%q", id, trunc(string(dl.sent), 30)))
				}
				if n := bytes.Count(dl.sent, []byte(dl.header)); n != 1 && !strings.Contains(string(dl.body), dl.header) {
					x.viol("header", fmt.Sprintf("header is on the wire %d times", n), id)
				}
				// one writer: the wire carries exactly the header followed by what was written, byte for byte
				if dl.writers <= 1 {
					want := append([]byte(dl.header), dl.body...)
					if !bytes.HasPrefix(want, dl.sent) {
						x.viol("header", "bytes on the wire are not the header followed by the caller's own payload: "+diffClass(dl.sent, want[:min(len(want), len(dl.sent))]), fmt.Sprintf("%s sent=%q want-prefix-of=%q", id, trunc(string(dl.sent), 30), trunc(string(want), 30)))
					}
				}
				if len(dl.sent) != len(dl.header)+total && !stopped && !dl.writeFailed {
					x.viol("header", "bytes on the wire are not header plus payload", fmt.Sprintf("%s sent=%d header=%d payload=%d", id, len(dl.sent), len(dl.header), total))
				}
			}
		}
		switch {
		case len(dl.accepted) > 1:
			x.viol("routing", "one connection was returned by more than one Accept", fmt.Sprintf("%s %v", id, dl.accepted))
		case len(dl.accepted) == 1:
			name := dl.accepted[0]
			got := dl.got[name]
			clientBytes := dl.sent
			if name == "default" {
				if !bytes.Equal(got, clientBytes) && dl.closedByClient {
					x.viol("routing", "default listener's connection does not yield the client's byte stream unmodified: "+diffClass(got, clientBytes), fmt.Sprintf("%s got=%q want=%q", id, trunc(string(got), 40), trunc(string(clientBytes), 40)))
				}
				// strict case: its route was registered before the connection arrived and never went away
				if len(clientBytes) >= x.n && !stopped {
					p := string(clientBytes[:x.n])
					if reg, ok := x.routeRegStep[p]; ok && reg < dl.pushStep && x.routeClosedStep[p] == 0 {
						x.viol("routing", "connection with a registered prefix was delivered to the default listener", fmt.Sprintf("%s prefix=%q", id, p))
					}
					// ... or registered again (fresh listener handed out) before it arrived
					if rr := x.reRouteStep[p]; rr > 0 && rr < dl.pushStep {
						x.viol("routing", "connection with a prefix registered again after its listener was closed was delivered to the default listener", fmt.Sprintf("%s prefix=%q", id, p))
					}
				}
			} else {
				if len(clientBytes) < x.n || string(clientBytes[:x.n]) != name {
					x.viol("routing", "connection delivered to a route whose prefix it did not send", fmt.Sprintf("%s route=%q sent=%q", id, name, trunc(string(clientBytes), 20)))
				} else if !bytes.Equal(got, clientBytes[x.n:]) && dl.closedByClient {
					x.viol("routing", "routed connection does not yield the client's bytes minus the prefix: "+diffClass(got, clientBytes[x.n:]), fmt.Sprintf("%s got=%q want=%q", id, trunc(string(got), 40), trunc(string(clientBytes[x.n:]), 40)))
				}
			}
		default:
			// not delivered: closed by the mux, or still waiting for its first N bytes, or never accepted by the base listener
			inBase := false
			for _, c := range x.base.Pending() {
				if c == net.Conn(dl.b) {
					inBase = true
				}
			}
			waiting := len(dl.sent) < x.n && !dl.closedByClient
			// handed to a listener on which nobody calls Accept: parked there, legitimately
			parked := false
			if len(dl.sent) >= x.n {
				p := string(dl.sent[:x.n])
				if _, isRoute := x.routeRegStep[p]; isRoute {
					parked = x.noAcc[p] || x.noAcc["default"] // (default: the route may not have been registered yet)
				} else {
					parked = x.noAcc["default"]
				}
			}
			// (a stopped base listener resets what it never handed out; a connection its
			// Accept DID return is the multiplexer's to deliver or close, stopped or not)
			handedOut := false
			for _, c := range x.base.Accepted {
				if c == net.Conn(dl.b) {
					handedOut = true
				}
			}
			if !dl.b.IsClosed() && !inBase && !waiting && !parked && (!x.base.closed || handedOut) {
				x.viol("routing", "connection accepted by the base listener was neither delivered to a listener nor closed", fmt.Sprintf("%s sent=%d", id, len(dl.sent)))
			}
		}
	}
	// a connection that was delivered yields the bytes its client has written, as
	// they arrive (a client that waits for an answer never closes first)
	for _, dl := range x.dials {
		if len(dl.accepted) != 1 || !dl.wroteAll || dl.b.IsClosed() || dl.a.IsClosed() {
			continue
		}
		name := dl.accepted[0]
		want := len(dl.sent)
		if name != "default" {
			want -= x.n
		}
		if dl.soFar[name] < want {
			x.viol("routing", "delivered connection withholds bytes its client has written (the client is waiting for the answer)", fmt.Sprintf("conn%d listener=%s read=%d written=%d", dl.id, name, dl.soFar[name], want))
		}
	}
	if stopped {
		// every routed listener's Accept must have failed rather than block
		for _, t := range x.rt.Tasks() {
			if strings.HasPrefix(t.Name, "acceptor-") && t.State != verifsim.StExited && !strings.Contains(t.Name, "/") {
				x.viol("stop", "Accept still blocked after the multiplexer stopped: "+roleE5(t.Name)+"@"+whereClass(t.Label), t.Name)
			}
		}
		if !x.runDone {
			x.viol("stop", "Run did not return after the multiplexer stopped", "")
		}
	}
}

func diffClass(got, want []byte) string {
	switch {
	case len(got) < len(want) && bytes.HasPrefix(want, got):
		return "truncated"
	case len(got) < len(want) && bytes.HasSuffix(want, got):
		return "head-missing"
	case len(got) > len(want):
		return "extra-bytes"
	}
	return "altered"
}
