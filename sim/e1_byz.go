package sim

import (
	"bytes"
	"fmt"
	"io"
	"unicode/utf8"

	gogoproto "github.com/gogo/protobuf/proto"

	"storj.io/drpc/drpcerr"
	oldinvoke "verifharness/old017/invoke"
	oldwire "verifharness/old017/drpcwire"
)

// ---- C18: control-frame injection by a renumbering proxy --------------------------------

// ctlProxy models a newer peer that interleaves control packets of kinds this
// version does not know into its own (consistent) id sequence: after each
// forwarded write it may append an unknown control packet for the same stream and
// shifts the message ids of all later frames of that stream accordingly.
type ctlProxy struct {
	x      *e1
	stream uint64
	shift  uint64
	Inject int
}

func (c *ctlProxy) mutate(from *Endpoint, p []byte) []byte {
	var out []byte
	rest := p
	var last RFrame
	n := 0
	for len(rest) > 0 {
		fr, ok, err := refParseFrame(rest)
		if !ok || err != nil {
			return p // not whole frames: leave untouched
		}
		if fr.Stream != c.stream {
			c.stream, c.shift = fr.Stream, 0
		}
		fr2 := fr
		fr2.Msg += c.shift
		out = refAppendFrame(out, fr2)
		rest = rest[fr.Size:]
		last = fr2
		n++
	}
	if n > 0 && last.Done && c.x.ch.Bool("net", 0.15) {
		c.shift++
		kind := uint8(8 + c.x.ch.Pick("net", 56))
		payload := make([]byte, c.x.ch.Pick("net", 20))
		// one or two frames, control bit on at least one of them
		if len(payload) > 2 && c.x.ch.Bool("net", 0.5) {
			out = refAppendFrame(out, RFrame{Stream: last.Stream, Msg: last.Msg + 1, Kind: kind, Ctl: true, Data: payload[:1]})
			out = refAppendFrame(out, RFrame{Stream: last.Stream, Msg: last.Msg + 1, Kind: kind, Done: true, Ctl: c.x.ch.Bool("net", 0.5), Data: payload[1:]})
		} else {
			out = refAppendFrame(out, RFrame{Stream: last.Stream, Msg: last.Msg + 1, Kind: kind, Done: true, Ctl: true, Data: payload})
		}
		c.Inject++
	}
	// a control packet of an unknown kind that already carries the id of the NEXT
	// stream, right after this side's last frame of a well-behaved rpc (nothing
	// for the current stream follows it, so the id order stays legal): the
	// receiver has to ignore it; the rpc in progress is not its business
	if n > 0 && last.Done && last.Kind == kCloseSend && c.futureOK(last.Stream) && c.x.ch.Bool("net", 0.25) {
		out = refAppendFrame(out, RFrame{Stream: last.Stream + 1, Msg: 0, Kind: uint8(8 + c.x.ch.Pick("net", 56)), Done: true, Ctl: true, Data: make([]byte, c.x.ch.Pick("net", 6))})
		c.Inject++
		c.x.res.probe("unknown_control_packet_for_future_stream")
	}
	return out
}

// futureOK: the rpc using stream sid is well behaved (no cancel, no early close,
// no error), so the half-close is the last frame its client writes for it.
func (c *ctlProxy) futureOK(sid uint64) bool {
	for _, r := range c.x.recs {
		if r.SID == sid && r.Created {
			return r.Spec.Clean && !r.Spec.Cancel && !r.Spec.Misbehaved && r.Spec.Shape != ShUnary
		}
	}
	return false
}

// ---- C18: released reader decodes what the current implementation emitted --------------

// packet kinds v0.0.17 knows (kind 4 was "deprecated cancel": unknown to its stream layer)
var oldKinds = map[uint8]bool{1: true, 2: true, 3: true, 5: true, 6: true, 7: true}

func (x *e1) checkOldReader() {
	x.checkOldRelease()
	for _, m := range []*WireMonitor{x.monC, x.monS} {
		if len(m.Viol) > 0 || m.Trailing() > 0 || len(m.Raw) == 0 {
			continue
		}
		big := false
		rest := m.Raw
		for len(rest) > 0 {
			fr, ok, err := refParseFrame(rest)
			if !ok || err != nil {
				break
			}
			if fr.Size > 1<<20-64 {
				big = true
			}
			rest = rest[fr.Size:]
		}
		if big {
			x.res.probe("oldreader_skipped_frame_over_old_limit")
			continue
		}
		var want []RPacket
		for _, p := range m.Packets {
			if !p.Ctl {
				want = append(want, p)
				// the released stream layer treats every kind it does not know as a
				// fatal protocol error unless the control bit tells its reader to skip it
				if !oldKinds[p.Kind] {
					x.viol("oldreader", fmt.Sprintf("a packet of kind %d, which the released version does not know, was emitted without the control bit", p.Kind), fmt.Sprintf("%s wire: %s", m.Name, p))
				}
				// the error payload layout is shared with the released version: its
				// decoder must obtain the handler's text and code from what was emitted
				if p.Kind == kError && m == x.monS {
					for _, r := range x.recs {
						if r.SID == p.Stream && r.Spec.HRet == RetErr && !r.Spec.Unknown && r.HReturned {
							got := oldwire.UnmarshalError(p.Data)
							if got.Error() != wantErrText(r.Spec.HErr) || drpcerr.Code(got) != r.Spec.HErr.Code {
								x.viol("oldreader", "the released error decoder does not obtain the handler's text and code from the emitted error packet", fmt.Sprintf("rpc%d got %q code=%d want %q code=%d", r.Spec.Idx, trunc(got.Error(), 40), drpcerr.Code(got), trunc(wantErrText(r.Spec.HErr), 40), r.Spec.HErr.Code))
							}
						}
					}
				}
			}
		}
		rd := oldwire.NewReader(bytes.NewReader(m.Raw))
		i := 0
		for {
			pkt, err := rd.ReadPacket()
			if err == io.EOF {
				break
			}
			if err != nil {
				x.viol("oldreader", "released v0.0.17 reader rejects the emitted byte stream: "+stripNums(trunc(err.Error(), 60)), fmt.Sprintf("%s wire, after %d packets: %v", m.Name, i, err))
				return
			}
			if i >= len(want) {
				x.viol("oldreader", "released v0.0.17 reader decodes more packets than were emitted", fmt.Sprintf("%s wire: extra %v", m.Name, pkt))
				return
			}
			w := want[i]
			if pkt.ID.Stream != w.Stream || pkt.ID.Message != w.Msg || uint8(pkt.Kind) != w.Kind || !bytes.Equal(pkt.Data, w.Data) {
				x.viol("oldreader", "released v0.0.17 reader decodes a different packet than was emitted", fmt.Sprintf("%s wire packet %d: got s%d m%d k%d len%d want %s", m.Name, i, pkt.ID.Stream, pkt.ID.Message, pkt.Kind, len(pkt.Data), w))
				return
			}
			if w.Kind == kInvokeMD && validUTF8Meta(pkt.Data) {
				var md oldinvoke.Metadata
				if err := gogoproto.Unmarshal(pkt.Data, &md); err != nil {
					x.viol("oldreader", "released metadata decoder rejects the emitted metadata", fmt.Sprintf("%v", err))
				} else if pairs, err := refDecodeMeta(pkt.Data); err == nil {
					if len(pairs) >= len(md.Data) {
						for _, kv := range pairs {
							if md.Data[kv.K] != kv.V && len(pairs) == len(md.Data) {
								x.viol("oldreader", "released metadata decoder yields a different map", fmt.Sprintf("key %q", trunc(kv.K, 20)))
							}
						}
					}
				}
			}
			i++
		}
		if i != len(want) {
			x.viol("oldreader", "released v0.0.17 reader decodes fewer packets than were emitted", fmt.Sprintf("%s wire: %d of %d", m.Name, i, len(want)))
		}
		x.res.probeN("oldreader_packets_compared", i)
	}
}

// ---- C13: byzantine peer ------------------------------------------------------------------

type byzProxy struct {
	x     *e1
	Fired map[string]int
	dead  map[*Endpoint]bool
	flooded map[*Endpoint]int // sender endpoint -> bytes of one unfinished packet injected
}

// floodWeight: the endless packet needs a small reader maximum and a transport
// that moves bytes in large pieces (otherwise the run exhausts its step budget).
func (b *byzProxy) floodWeight() int {
	c := b.x.prog.Cfg
	if c.ReaderMax > 0 && c.ReaderMax <= 64<<10 && (c.NetCap < 0 || c.NetCap >= 4096) {
		return 2
	}
	return 0
}

func (b *byzProxy) hit(kind string) {
	b.Fired[kind]++
	b.x.res.fault("byz-"+kind, 1)
	b.x.byz = true
}

func (b *byzProxy) hostileFrame(cur uint64) []byte {
	ch := b.x.ch
	sid := []uint64{0, cur, cur + 1, cur - 1, ^uint64(0), 1 << 40}[ch.Pick("net", 6)]
	mid := []uint64{0, 1, 2, 1 << 50, ^uint64(0)}[ch.Pick("net", 5)]
	fr := RFrame{Stream: sid, Msg: mid, Kind: uint8(ch.Pick("net", 64)), Done: ch.Bool("net", 0.7), Ctl: ch.Bool("net", 0.3)}
	fr.Data = make([]byte, []int{0, 1, 7, 8, 9, 100}[ch.Pick("net", 6)])
	for i := range fr.Data {
		fr.Data[i] = byte(ch.Pick("net", 256))
	}
	return refAppendFrame(nil, fr)
}

func (b *byzProxy) mutate(from *Endpoint, p []byte) []byte {
	ch := b.x.ch
	if b.dead[from] || !ch.Bool("net", 0.06) {
		return p
	}
	var cur uint64
	if fr, ok, _ := refParseFrame(p); ok {
		cur = fr.Stream
	}
	q := append([]byte(nil), p...)
	switch ch.Weighted("net", []int{3, 2, 3, 2, 1, 2, 1, 4, b.floodWeight()}) {
	case 8: // a packet that never finishes: far more than the maximum in non-final frames of one id
		chunk := make([]byte, 16<<10)
		total := 0
		for total <= 6*b.x.prog.Cfg.ReaderMax {
			q = append(q, refAppendFrame(nil, RFrame{Stream: cur + 1, Msg: 1 << 41, Kind: kMessage, Data: chunk})...)
			total += len(chunk)
		}
		b.hit("endless-packet")
		b.dead[from] = true
		if b.flooded == nil {
			b.flooded = map[*Endpoint]int{}
		}
		b.flooded[from] = total
	case 7: // damage a genuine invoke-metadata packet in flight: truncate its payload or flip a byte of it
		var out []byte
		rest, hit := p, false
		for len(rest) > 0 {
			fr, ok, err := refParseFrame(rest)
			if !ok || err != nil {
				out = append(out, rest...)
				break
			}
			rest = rest[fr.Size:]
			// the final frame of the packet: truncating it truncates the encoded map's tail
			if fr.Kind == kInvokeMD && fr.Done && len(fr.Data) > 0 && !hit {
				hit = true
				d := append([]byte(nil), fr.Data...)
				if ch.Bool("net", 0.7) {
					d = d[:len(d)-(1+ch.Pick("net", min(3, len(d))))]
				} else {
					d[ch.Pick("net", len(d))] ^= byte(1 + ch.Pick("net", 255))
				}
				fr.Data = d
			}
			out = refAppendFrame(out, fr)
		}
		if hit {
			b.hit("metadata-damage")
			return out
		}
		return p
	case 0: // flip one byte
		if len(q) > 0 {
			q[ch.Pick("net", len(q))] ^= byte(1 + ch.Pick("net", 255))
			b.hit("flip")
		}
	case 1: // replace by garbage
		for i := range q {
			q[i] = byte(ch.Pick("net", 256))
		}
		b.hit("garbage")
	case 2: // append a well formed hostile frame
		q = append(q, b.hostileFrame(cur)...)
		b.hit("frame")
	case 3: // prepend a well formed hostile frame
		q = append(b.hostileFrame(cur), q...)
		b.hit("frame")
	case 4: // over-long varint
		q = append(q, 0x05, 0x80, 0x80, 0x80, 0x80, 0x80, 0x80, 0x80, 0x80, 0x80, 0x80, 0x80, 0x01)
		b.hit("varint")
	case 5: // frame announcing a huge payload, then a flood of bytes
		q = append(q, 0x05)
		q = refAppendVarint(q, cur)
		q = refAppendVarint(q, 1<<40)
		q = refAppendVarint(q, uint64(1)<<uint(20+ch.Pick("net", 42)))
		flood := make([]byte, []int{0, 100, 5000, 400000}[ch.Pick("net", 4)])
		q = append(q, flood...)
		b.hit("huge-length")
		b.dead[from] = true
	case 6: // hostile error / metadata payloads on the current stream
		k := uint8(kError)
		if ch.Bool("net", 0.5) {
			k = kInvokeMD
		}
		pay := make([]byte, ch.Pick("net", 12))
		for i := range pay {
			pay[i] = byte(ch.Pick("net", 256))
		}
		if k == kInvokeMD && ch.Bool("net", 0.6) {
			pay = hostileMeta(ch)
		}
		if k == kError && ch.Bool("net", 0.25) {
			// a long error text that is not text: only UTF-8 continuation bytes, or
			// only bytes that start a multi-byte sequence
			fill := []byte{0x80, 0xbf, 0xc3, 0xf0, 0xff}[ch.Pick("net", 5)]
			pay = make([]byte, 8+[]int{1, 4095, 4096, 4097, 9000}[ch.Pick("net", 5)])
			for i := 8; i < len(pay); i++ {
				pay[i] = fill
			}
		}
		q = append(q, refAppendFrame(nil, RFrame{Stream: cur, Msg: 1 << 30, Kind: k, Done: true, Data: pay})...)
		b.hit("payload")
	}
	return q
}

// validUTF8Meta: protobuf strings are UTF-8; the released decoder validates it,
// so only such maps are inside the compatibility domain.
func validUTF8Meta(b []byte) bool {
	pairs, err := refDecodeMeta(b)
	if err != nil {
		return false
	}
	for _, p := range pairs {
		if !utf8.ValidString(p.K) || !utf8.ValidString(p.V) {
			return false
		}
	}
	return true
}

// hostileMeta: structurally plausible but malformed encodings of map<string,string>
// (entries with one field only, truncated fixed-width fields, wrong wire types,
// lengths pointing past the end, nested garbage).
func hostileMeta(ch *Choices) []byte {
	cat := [][]byte{
		{10, 2, 10, 0},                     // entry with only the key field
		{10, 2, 18, 0},                     // entry with only the value field
		{10, 0},                            // empty entry
		{10, 4, 10, 1, 'k', 18},            // value tag without length
		{10, 5, 10, 1, 'k', 18, 9},         // value length past the end
		{10, 3, 10, 5, 'k'},                // key length past the entry
		{9, 1, 2, 3, 4, 5},                 // unknown fixed64 field cut short
		{9, 1, 2, 3},                       // ... shorter than four bytes
		{13, 1, 2},                         // unknown fixed32 field cut short
		{8},                                // varint field without value
		{8, 0x80, 0x80, 0x80, 0x80, 0x80, 0x80, 0x80, 0x80, 0x80, 0x80, 1}, // over-long varint
		{10, 0x80, 0x80, 0x80, 0x80, 0x80, 0x80, 0x80, 0x80, 0x80, 1},       // huge entry length
		{10, 6, 10, 1, 'k', 18, 1, 'v', 10}, // trailing tag
		{10, 6, 8, 1, 10, 1, 'k', 18},       // varint field inside the entry
		{18, 1, 'x'},                        // wrong top-level field number
		{11, 12},                            // group wire types
		{10, 4, 16, 1, 24, 2},               // key and value as varints
		{10, 7, 10, 1, 'k', 18, 1, 'v', 0},  // zero tag inside the entry
	}
	b := append([]byte(nil), cat[ch.Pick("net", len(cat))]...)
	if ch.Bool("net", 0.3) && len(b) > 1 {
		b = b[:len(b)-1]
	}
	if ch.Bool("net", 0.3) {
		// in front of or behind a well-formed entry
		ok := []byte{10, 6, 10, 1, 'a', 18, 1, 'b'}
		if ch.Bool("net", 0.5) {
			b = append(ok, b...)
		} else {
			b = append(b, ok...)
		}
	}
	return b
}

// checkOldRelease (C18, packet sequences): a released v0.0.17 server lets go of a
// stream only when it sees KindClose (or an error/cancel) for it, when it ended
// the stream itself, or when both sides have half-closed. On a connection that is
// still alive, every stream whose client call is over must have reached one of
// those on the wire - otherwise a released server would swallow the next invoke.
func (x *e1) checkOldRelease() {
	if x.conn == nil || connClosed(x.conn) || x.serveDone || x.ioFired() || x.transportClosedByHarness() || x.closeStep > 0 || x.byz {
		return
	}
	type st struct{ invoked, cClose, cHalf, sEnd, sHalf bool }
	m := map[uint64]*st{}
	get := func(id uint64) *st {
		if m[id] == nil {
			m[id] = &st{}
		}
		return m[id]
	}
	for _, p := range x.monC.Packets {
		s := get(p.Stream)
		switch p.Kind {
		case kInvoke:
			s.invoked = true
		case kClose, kError:
			s.cClose = true
		case kCancel:
			s.cClose = true // (a released server does not know it, but the current client only sends it in soft-cancel mode, which is its own compatibility story)
		case kCloseSend:
			s.cHalf = true
		}
	}
	for _, p := range x.monS.Packets {
		s := get(p.Stream)
		switch p.Kind {
		case kClose, kError:
			s.sEnd = true
		case kCloseSend:
			s.sHalf = true
		}
	}
	for _, r := range x.recs {
		sid := x.sidOf(r)
		s := m[sid]
		if sid == 0 || s == nil || !s.invoked || !r.ClientDone || r.Cancelled {
			continue
		}
		x.res.probe("old_release_rule_evaluated")
		if !s.cHalf {
			x.res.probe("old_release_rule_client_never_half_closed")
		}
		if !(s.cClose || s.sEnd || (s.cHalf && s.sHalf)) {
			x.viol("oldreader", "the client is done with an rpc but its wire carries nothing that lets a released server release the stream (no close, and not both half-closes)", fmt.Sprintf("rpc%d stream %d client-half=%v server-half=%v", r.Spec.Idx, sid, s.cHalf, s.sHalf))
		}
	}
}
