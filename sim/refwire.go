package sim

import (
	"errors"
	"fmt"
)

// Independent reference implementation of the drpc wire format, written from
// the wire description (control byte: bit0 done, bits1-6 kind, bit7 control;
// then stream id, message id, payload length as little-endian base-128 varints
// of at most 10 bytes; then the payload). It shares no code with drpcwire.

type RFrame struct {
	Stream, Msg uint64
	Kind        uint8
	Done, Ctl   bool
	Data        []byte
	Size        int // encoded size
}

var errRefVarint = errors.New("ref: varint too long")

// refVarint: ok=false,err=nil => need more bytes.
func refVarint(b []byte) (v uint64, n int, ok bool, err error) {
	for i := 0; i < 10; i++ {
		if i >= len(b) {
			return 0, 0, false, nil
		}
		c := b[i]
		v |= uint64(c&0x7f) << (7 * uint(i))
		if c < 0x80 {
			return v, i + 1, true, nil
		}
	}
	return 0, 0, false, errRefVarint
}

// refParseFrame parses one frame at the start of b. ok=false, err=nil means a
// proper prefix of a frame (need more data).
func refParseFrame(b []byte) (fr RFrame, ok bool, err error) {
	if len(b) < 4 { // smallest frame: control + three one-byte varints
		// a shorter buffer may still contain an over-long varint only if >10 bytes; it cannot.
		return fr, false, nil
	}
	c := b[0]
	fr.Done = c&1 != 0
	fr.Ctl = c&0x80 != 0
	fr.Kind = (c >> 1) & 0x3f
	p := 1
	var n int
	var l uint64
	if fr.Stream, n, ok, err = refVarint(b[p:]); !ok || err != nil {
		return fr, false, err
	}
	p += n
	if fr.Msg, n, ok, err = refVarint(b[p:]); !ok || err != nil {
		return fr, false, err
	}
	p += n
	if l, n, ok, err = refVarint(b[p:]); !ok || err != nil {
		return fr, false, err
	}
	p += n
	if l > uint64(len(b)-p) {
		return fr, false, nil
	}
	fr.Data = b[p : p+int(l)]
	fr.Size = p + int(l)
	return fr, true, nil
}

func refAppendVarint(b []byte, v uint64) []byte {
	for v >= 0x80 {
		b = append(b, byte(v)|0x80)
		v >>= 7
	}
	return append(b, byte(v))
}

func refAppendFrame(b []byte, fr RFrame) []byte {
	c := fr.Kind << 1
	if fr.Done {
		c |= 1
	}
	if fr.Ctl {
		c |= 0x80
	}
	b = append(b, c)
	b = refAppendVarint(b, fr.Stream)
	b = refAppendVarint(b, fr.Msg)
	b = refAppendVarint(b, uint64(len(fr.Data)))
	return append(b, fr.Data...)
}

// RPacket is a reassembled packet.
type RPacket struct {
	Stream, Msg uint64
	Kind        uint8
	Ctl         bool
	Data        []byte
	EndOff      int // number of bytes written on this wire up to and including the packet's last frame
}

func (p RPacket) String() string {
	return fmt.Sprintf("s%d m%d k%d c%v len%d", p.Stream, p.Msg, p.Kind, p.Ctl, len(p.Data))
}

// Kinds of the wire protocol.
const (
	kInvoke    = 1
	kMessage   = 2
	kError     = 3
	kCancel    = 4
	kClose     = 5
	kCloseSend = 6
	kInvokeMD  = 7
)

// WireMonitor checks the byte stream one endpoint hands to its transport
// (property C07) and reassembles it into packets with the reference rules (used
// by C01 completeness, C11, C18).
type WireMonitor struct {
	Name    string
	buf     []byte
	Frames  int
	Packets []RPacket
	cur     *RPacket
	lastS   uint64
	lastM   uint64
	started bool
	doneID  bool // the last frame seen for (lastS,lastM) was a done frame
	Viol    []string
	Bytes   int
	// KeepData limits how much payload is retained per packet (0 = all).
	OnPacket func(p RPacket)
	// PartialAtWrite counts Write boundaries that fell inside a frame.
	PartialAtWrite int
	Abandoned      int
	KeepRaw        bool
	Raw            []byte
	parsed         int
}

// Trailing returns the number of bytes of an incomplete frame at the end of
// everything written so far.
func (m *WireMonitor) Trailing() int { return len(m.buf) }

func (m *WireMonitor) violate(f string, a ...any) {
	if len(m.Viol) < 8 {
		m.Viol = append(m.Viol, fmt.Sprintf(f, a...))
	}
}

// Write feeds one buffer handed to Transport.Write.
func (m *WireMonitor) Write(p []byte) {
	m.Bytes += len(p)
	if m.KeepRaw {
		m.Raw = append(m.Raw, p...)
	}
	m.buf = append(m.buf, p...)
	for {
		fr, ok, err := refParseFrame(m.buf)
		if err != nil {
			m.violate("malformed frame on wire: %v", err)
			m.buf = nil
			return
		}
		if !ok {
			break
		}
		m.frame(fr)
		m.buf = m.buf[fr.Size:]
	}
	if len(m.buf) > 0 {
		m.PartialAtWrite++
	}
}

func (m *WireMonitor) frame(fr RFrame) {
	m.Frames++
	m.parsed += fr.Size
	if m.started {
		switch {
		case fr.Stream < m.lastS:
			m.violate("stream id went backwards: s%d after s%d", fr.Stream, m.lastS)
		case fr.Stream == m.lastS && fr.Msg < m.lastM:
			m.violate("message id went backwards: s%d m%d after m%d", fr.Stream, fr.Msg, m.lastM)
		case fr.Stream == m.lastS && fr.Msg == m.lastM:
			if m.doneID {
				m.violate("frame after the final frame of s%d m%d", fr.Stream, fr.Msg)
			}
			if m.cur != nil && m.cur.Kind != fr.Kind {
				m.violate("kind changed within s%d m%d: %d -> %d", fr.Stream, fr.Msg, m.cur.Kind, fr.Kind)
			}
		}
	}
	if !m.started || fr.Stream != m.lastS || fr.Msg != m.lastM {
		// a new id discards any unfinished packet
		if m.cur != nil && !m.doneID {
			// unfinished packet abandoned by a later id: legal on the wire
			// (the reader discards it).
			m.Abandoned++
		}
		m.cur = &RPacket{Stream: fr.Stream, Msg: fr.Msg, Kind: fr.Kind}
		m.doneID = false
	}
	m.started = true
	m.lastS, m.lastM = fr.Stream, fr.Msg
	if m.cur == nil {
		m.cur = &RPacket{Stream: fr.Stream, Msg: fr.Msg, Kind: fr.Kind}
	}
	m.cur.Ctl = m.cur.Ctl || fr.Ctl
	m.cur.Data = append(m.cur.Data, fr.Data...)
	if fr.Done {
		m.doneID = true
		pk := *m.cur
		pk.EndOff = m.parsed
		m.Packets = append(m.Packets, pk)
		if m.OnPacket != nil {
			m.OnPacket(pk)
		}
		m.cur = nil
	}
}

// ---- reference protobuf codec for message{ map<string,string> = 1 } ------------------

type kv struct{ K, V string }

var errRefMeta = errors.New("ref: malformed metadata")

// refDecodeMeta decodes the wire form of the metadata message into ordered pairs,
// accepting only the canonical shape the property describes: repeated field 1
// (length delimited) whose payload is field 1 (key) then field 2 (value).
func refDecodeMeta(b []byte) ([]kv, error) {
	var out []kv
	for len(b) > 0 {
		if b[0] != 0x0a {
			return nil, errRefMeta
		}
		l, n, ok, err := refVarint(b[1:])
		if !ok || err != nil || l > uint64(len(b)-1-n) {
			return nil, errRefMeta
		}
		ent := b[1+n : 1+n+int(l)]
		b = b[1+n+int(l):]
		if len(ent) == 0 || ent[0] != 0x0a {
			return nil, errRefMeta
		}
		kl, kn, ok, err := refVarint(ent[1:])
		if !ok || err != nil || kl > uint64(len(ent)-1-kn) {
			return nil, errRefMeta
		}
		key := string(ent[1+kn : 1+kn+int(kl)])
		ent = ent[1+kn+int(kl):]
		if len(ent) == 0 || ent[0] != 0x12 {
			return nil, errRefMeta
		}
		vl, vn, ok, err := refVarint(ent[1:])
		if !ok || err != nil || vl != uint64(len(ent)-1-vn) {
			return nil, errRefMeta
		}
		out = append(out, kv{key, string(ent[1+vn:])})
	}
	return out, nil
}

// refEncodeMeta is the canonical protobuf encoding of the pairs in order.
func refEncodeMeta(pairs []kv) []byte {
	var b []byte
	for _, p := range pairs {
		var ent []byte
		ent = append(ent, 0x0a)
		ent = refAppendVarint(ent, uint64(len(p.K)))
		ent = append(ent, p.K...)
		ent = append(ent, 0x12)
		ent = refAppendVarint(ent, uint64(len(p.V)))
		ent = append(ent, p.V...)
		b = append(b, 0x0a)
		b = refAppendVarint(b, uint64(len(ent)))
		b = append(b, ent...)
	}
	return b
}
