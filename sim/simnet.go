package sim

import (
	"errors"
	"fmt"
	"io"
	"net"
	"syscall"
	"time"

	"storj.io/drpc/verifsim"
)

// Net is the simulated network of one run. All of its state is touched only by
// the single running task (or by the director at quiescence), under RT.Mu where
// a task may be woken.
type Net struct {
	D  *Director
	RT *verifsim.Runtime
	Ch *Choices

	TCPStyle   bool // writes after peer close succeed into the void
	EmptyReads bool // allow (0,nil) reads
	Stats      NetStats
	Endpoints  []*Endpoint
	// EmptyHeavy: every other read or so returns (0, nil) (never many in a row)
	EmptyHeavy bool
	// OnWrite is called with every buffer handed to Write (monitors).
	OnWrite func(e *Endpoint, p []byte)
	// OnAccept is called with bytes as they are accepted into the peer's queue
	// (the order in which concurrent writers' data really hits the wire).
	OnAccept func(e *Endpoint, p []byte)
	// OnRead is called with every chunk returned by Read.
	OnRead func(e *Endpoint, p []byte)
	// Mutate, if set, may replace bytes accepted into a queue (byzantine).
	Mutate func(from *Endpoint, p []byte) []byte
}

// NetStats counts what the network actually did in a run.
type NetStats struct {
	Reads, Writes, Closes     int
	Chunked                   int // reads that returned less than available
	OneByte                   int
	EmptyReads                int
	BackpressureWaits         int
	StallWaits                int
	ReadErr, ReadErrWithData  int
	WriteErr                  int
	PeerCloseSeen             int
	ConcurrentWrites          int
	ConcurrentReads           int
	BytesWritten, BytesRead   int
	WritesAfterClose          int
}

// Fault describes one planned I/O fault on an endpoint: it fires on the Op-th
// I/O call (1-based, reads and writes counted together per endpoint).
type Fault struct {
	Op       int    `json:"op"`
	Kind     string `json:"kind"` // read-err, read-err-data, write-err, local-close, peer-close
	Partial  int    `json:"partial"`
	Fired    bool   `json:"-"`
	FiredOn  string `json:"-"`
	FiredAt  int    `json:"-"`
}

var errInjected = errors.New("injected transport failure")

// injected read/write errors come in the shapes real transports produce; which
// one is a function of the fault's position (no extra decision)
type timeoutErr struct{}

func (timeoutErr) Error() string   { return "injected transport failure: i/o timeout" }
func (timeoutErr) Timeout() bool   { return true }
func (timeoutErr) Temporary() bool { return true }

func faultErr(f *Fault) error {
	if f == nil {
		return errInjected
	}
	switch (f.Op + f.Partial) % 4 {
	case 1:
		return &net.OpError{Op: "read", Net: "sim", Err: syscall.ECONNRESET}
	case 2:
		return &net.OpError{Op: "read", Net: "sim", Err: timeoutErr{}}
	}
	return errInjected
}

// Endpoint is one side of a simulated connection. It implements net.Conn.
type Endpoint struct {
	ReadsAfterFail int  // Read calls issued after the endpoint had failed
	Spinning       bool // more than 200 of them: the caller spins on a failed transport
	N    *Net
	Name string
	Peer *Endpoint

	rq         []byte // bytes waiting to be read by this endpoint
	Cap        int    // capacity of rq (<0: unbounded)
	StalledIn  bool   // nothing can be written towards this endpoint (peer writes park)
	closed     bool
	ClosedAt   int // director step of the local close
	peerClosed bool
	failed     error

	reader, writer *verifsim.Task // tasks blocked in Read / Write (waiting state)
	inR, inW       int
	Ops            int
	Faults         []*Fault
	CloseCalls     int
	Written        int // total bytes handed to Write and accepted
	Delivered      int // total bytes returned from Read
	emptyRun       int
	MaxReadBuf     int // largest buffer ever offered to Read (lower bound of the reader's buffer capacity)
	FailedWrites   int // Write calls that returned an error
	FailedBy       map[string]int // the same, per calling task
	InjectAfter    []byte // raw bytes a hostile peer appends right after the next Write of this endpoint
	OpLog          []string
}

// Pipe creates a connected pair (a = dialing side, b = accepting side).
func (n *Net) Pipe(name string, capacity int) (a, b *Endpoint) {
	a = &Endpoint{N: n, Name: name + ".c", Cap: capacity}
	b = &Endpoint{N: n, Name: name + ".s", Cap: capacity}
	a.Peer, b.Peer = b, a
	n.Endpoints = append(n.Endpoints, a, b)
	return a, b
}

func (e *Endpoint) HolderName() string { return "" }

func (e *Endpoint) task() *verifsim.Task {
	_, t := verifsim.Current()
	return t
}

func (e *Endpoint) fault() *Fault {
	for _, f := range e.Faults {
		if !f.Fired && f.Op == e.Ops {
			return f
		}
	}
	return nil
}

// Queued returns the number of bytes waiting to be read by e.
func (e *Endpoint) Queued() int { return len(e.rq) }

// IsClosed reports local close.
func (e *Endpoint) IsClosed() bool { return e.closed }

// Failed reports whether an injected failure happened on e.
func (e *Endpoint) Failed() bool { return e.failed != nil }

func (e *Endpoint) Read(p []byte) (int, error) {
	n := e.N
	t := e.task()
	e.Ops++
	op := e.Ops
	n.Stats.Reads++
	if len(p) > e.MaxReadBuf {
		e.MaxReadBuf = len(p)
	}
	e.inR++
	if e.inR > 1 {
		n.Stats.ConcurrentReads++
	}
	defer func() { e.inR-- }()
	if t != nil {
		t.Park("net.read " + e.Name)
	}
	flt := e.fault()
	if flt != nil && flt.Op == op {
		switch flt.Kind {
		case "read-err":
			flt.Fired, flt.FiredOn, flt.FiredAt = true, "read", n.D.Step
			e.failed = faultErr(flt)
			n.Stats.ReadErr++
			e.wakeAll()
			return 0, e.failed
		case "local-close":
			flt.Fired, flt.FiredOn, flt.FiredAt = true, "read", n.D.Step
			e.doClose()
		case "peer-close":
			flt.Fired, flt.FiredOn, flt.FiredAt = true, "read", n.D.Step
			e.Peer.doClose()
		}
	}
	for {
		n.RT.Mu.Lock()
		switch {
		case e.closed:
			n.RT.Mu.Unlock()
			return 0, io.ErrClosedPipe
		case e.failed != nil:
			// a caller that keeps reading from a failed transport is parked once it
			// is clear that it spins (the oracle reports it); otherwise the run
			// would only exhaust its step budget
			e.ReadsAfterFail++
			if e.ReadsAfterFail > 200 {
				e.Spinning = true
				_, t := verifsim.Current()
				if t != nil {
					t.BlockOn("net.read-spin", e)
					continue
				}
			}
			n.RT.Mu.Unlock()
			return 0, e.failed
		case len(e.rq) > 0 && len(p) > 0:
			n.RT.Mu.Unlock()
			if n.EmptyReads && e.emptyRun < 3 && n.Ch.Bool("net", n.emptyP()) {
				e.emptyRun++
				n.Stats.EmptyReads++
				return 0, nil
			}
			e.emptyRun = 0
			avail := len(e.rq)
			if avail > len(p) {
				avail = len(p)
			}
			k := avail
			if avail > 1 {
				switch n.Ch.Weighted("net", []int{5, 2, 2, 1}) {
				case 0: // everything
				case 1:
					k = 1
				case 2:
					k = 1 + n.Ch.Pick("net", avail)
				case 3:
					if avail > 4 {
						k = 1 + n.Ch.Pick("net", 4)
					}
				}
			}
			copy(p, e.rq[:k])
			e.rq = e.rq[k:]
			if k < avail {
				n.Stats.Chunked++
			}
			if k == 1 {
				n.Stats.OneByte++
			}
			e.Delivered += k
			n.Stats.BytesRead += k
			if n.OnRead != nil {
				n.OnRead(e, p[:k])
			}
			var err error
			if flt != nil && flt.Op == op && flt.Kind == "read-err-data" && !flt.Fired {
				flt.Fired, flt.FiredOn, flt.FiredAt = true, "read", n.D.Step
				e.failed = faultErr(flt)
				err = e.failed
				n.Stats.ReadErrWithData++
			}
			// space became available: wake a writer blocked on back-pressure
			n.RT.Mu.Lock()
			if w := e.Peer.writer; w != nil {
				w.MakeReady("net.write-space " + e.Peer.Name)
			}
			n.RT.Mu.Unlock()
			if err != nil {
				e.wakeAll()
			}
			return k, err
		case len(p) == 0:
			n.RT.Mu.Unlock()
			return 0, nil
		case e.peerClosed:
			n.RT.Mu.Unlock()
			n.Stats.PeerCloseSeen++
			return 0, io.EOF
		}
		if flt != nil && flt.Op == op && flt.Kind == "read-err-data" && !flt.Fired {
			// no data to attach the error to: deliver it alone
			n.RT.Mu.Unlock()
			flt.Fired, flt.FiredOn, flt.FiredAt = true, "read", n.D.Step
			e.failed = faultErr(flt)
			n.Stats.ReadErr++
			e.wakeAll()
			return 0, e.failed
		}
		if t == nil {
			n.RT.Mu.Unlock()
			panic("simnet: non-task goroutine would block in Read")
		}
		e.reader = t
		t.BlockOn("net.read-wait "+e.Name, e)
		e.reader = nil
	}
}

func (e *Endpoint) Write(p []byte) (k int, err error) {
	defer func() {
		if err != nil {
			e.FailedWrites++
			if e.FailedBy == nil {
				e.FailedBy = map[string]int{}
			}
			e.FailedBy[taskName()]++
		}
	}()
	n := e.N
	t := e.task()
	e.Ops++
	op := e.Ops
	n.Stats.Writes++
	e.inW++
	if e.inW > 1 {
		n.Stats.ConcurrentWrites++
	}
	defer func() { e.inW-- }()
	if n.OnWrite != nil {
		n.OnWrite(e, p)
	}
	if t != nil {
		t.Park("net.write " + e.Name)
	}
	if n.Mutate != nil {
		// a man-in-the-middle rewrites the whole buffer; the writer is told
		// that exactly its own bytes were taken
		orig := len(p)
		q := n.Mutate(e, p)
		k, err := e.writeBytes(t, op, q)
		if err == nil || k >= len(q) {
			return orig, err
		}
		if k > orig {
			k = orig
		}
		return k, err
	}
	if len(e.InjectAfter) > 0 {
		k, err := e.writeBytes(t, op, p)
		if err == nil {
			inj := e.InjectAfter
			e.InjectAfter = nil
			e.Peer.Inject(inj)
		}
		return k, err
	}
	return e.writeBytes(t, op, p)
}

func (e *Endpoint) writeBytes(t *verifsim.Task, op int, p []byte) (int, error) {
	n := e.N
	flt := e.fault()
	limit := -1
	if flt != nil && flt.Op == op {
		switch flt.Kind {
		case "write-err":
			limit = flt.Partial
			if limit >= len(p) {
				limit = len(p) - 1
			}
			if limit < 0 {
				limit = 0
			}
		case "local-close":
			flt.Fired, flt.FiredOn, flt.FiredAt = true, "write", n.D.Step
			e.doClose()
		case "peer-close":
			flt.Fired, flt.FiredOn, flt.FiredAt = true, "write", n.D.Step
			e.Peer.doClose()
		}
	}
	total := 0
	for {
		n.RT.Mu.Lock()
		switch {
		case e.closed:
			n.RT.Mu.Unlock()
			n.Stats.WritesAfterClose++
			return total, io.ErrClosedPipe
		case e.failed != nil:
			n.RT.Mu.Unlock()
			return total, e.failed
		case e.peerClosed:
			n.RT.Mu.Unlock()
			if n.TCPStyle {
				e.Written += len(p)
				return total + len(p), nil
			}
			return total, io.ErrClosedPipe
		}
		if limit >= 0 {
			// injected write error after `limit` bytes
			n.RT.Mu.Unlock()
			flt.Fired, flt.FiredOn, flt.FiredAt = true, "write", n.D.Step
			if limit > 0 {
				e.accept(p[:limit])
				total += limit
			}
			e.failed = errInjected
			n.Stats.WriteErr++
			e.wakeAll()
			return total, errInjected
		}
		space := len(p)
		if e.Peer.Cap >= 0 {
			space = e.Peer.Cap - len(e.Peer.rq)
		}
		if e.Peer.StalledIn {
			space = 0
		}
		if len(p) == 0 {
			n.RT.Mu.Unlock()
			return total, nil
		}
		if space > 0 {
			k := len(p)
			if k > space {
				k = space
			}
			n.RT.Mu.Unlock()
			e.accept(p[:k])
			total += k
			p = p[k:]
			if len(p) == 0 {
				return total, nil
			}
			continue
		}
		if t == nil {
			n.RT.Mu.Unlock()
			panic("simnet: non-task goroutine would block in Write")
		}
		if e.Peer.StalledIn {
			n.Stats.StallWaits++
		} else {
			n.Stats.BackpressureWaits++
		}
		e.writer = t
		t.BlockOn("net.write-wait "+e.Name, e)
		e.writer = nil
	}
}

// accept moves bytes into the peer's read queue and wakes its reader.
func (e *Endpoint) accept(p []byte) {
	n := e.N
	q := p
	if n.OnAccept != nil {
		n.OnAccept(e, p)
	}
	e.Peer.rq = append(e.Peer.rq, q...)
	e.Written += len(p)
	n.Stats.BytesWritten += len(p)
	n.RT.Mu.Lock()
	if r := e.Peer.reader; r != nil {
		r.MakeReady("net.read-data " + e.Peer.Name)
	}
	n.RT.Mu.Unlock()
}

// Inject appends raw bytes to e's read queue as if the peer had written them
// (byzantine faults; bypasses capacity).
func (e *Endpoint) Inject(p []byte) {
	e.rq = append(e.rq, p...)
	e.N.RT.Mu.Lock()
	if r := e.reader; r != nil {
		r.MakeReady("net.read-data " + e.Name)
	}
	e.N.RT.Mu.Unlock()
}

func (e *Endpoint) wakeAll() {
	rt := e.N.RT
	rt.Mu.Lock()
	for _, t := range []*verifsim.Task{e.reader, e.writer, e.Peer.reader, e.Peer.writer} {
		if t != nil {
			t.MakeReady("net.wake")
		}
	}
	rt.Mu.Unlock()
}

func (e *Endpoint) doClose() {
	if e.closed {
		return
	}
	e.closed = true
	e.ClosedAt = e.N.D.Step
	e.Peer.peerClosed = true
	e.wakeAll()
}

// Close closes the endpoint: pending local I/O fails, the peer sees EOF after
// draining.
func (e *Endpoint) Close() error {
	t := e.task()
	e.N.Stats.Closes++
	e.CloseCalls++
	if t != nil {
		t.Park("net.close " + e.Name)
	}
	if e.closed {
		return io.ErrClosedPipe
	}
	e.doClose()
	return nil
}

// Heal removes a stall and wakes writers.
func (e *Endpoint) Heal() {
	e.StalledIn = false
	e.wakeAll()
}

// SetCap changes the capacity and wakes writers.
func (e *Endpoint) SetCap(c int) {
	e.Cap = c
	e.wakeAll()
}

type simAddr string

func (a simAddr) Network() string { return "sim" }
func (a simAddr) String() string  { return string(a) }

func (e *Endpoint) LocalAddr() net.Addr                { return simAddr(e.Name) }
func (e *Endpoint) RemoteAddr() net.Addr               { return simAddr(e.Peer.Name) }
func (e *Endpoint) SetDeadline(t time.Time) error      { return nil }
func (e *Endpoint) SetReadDeadline(t time.Time) error  { return nil }
func (e *Endpoint) SetWriteDeadline(t time.Time) error { return nil }

var _ net.Conn = (*Endpoint)(nil)

// Listener is a simulated net.Listener.
type Listener struct {
	N       *Net
	Name    string
	queue   []net.Conn
	errs    []error // errors to return from the next Accept calls
	closed  bool
	waiter  []*verifsim.Task
	Accepts int
	Accepted []net.Conn // every connection an Accept call returned
	CloseCalls int
}

func (n *Net) NewListener(name string) *Listener { return &Listener{N: n, Name: name} }

func (l *Listener) HolderName() string { return "" }

func (l *Listener) wake() {
	l.N.RT.Mu.Lock()
	for _, t := range l.waiter {
		t.MakeReady("listener.wake")
	}
	l.waiter = l.waiter[:0]
	l.N.RT.Mu.Unlock()
}

// Push queues an incoming connection.
func (l *Listener) Push(c net.Conn) {
	l.queue = append(l.queue, c)
	l.wake()
}

// PushErr queues an Accept error.
func (l *Listener) PushErr(err error) {
	l.errs = append(l.errs, err)
	l.wake()
}

func (l *Listener) Accept() (net.Conn, error) {
	_, t := verifsim.Current()
	if t != nil {
		t.Park("listener.accept " + l.Name)
	}
	for {
		rt := l.N.RT
		rt.Mu.Lock()
		switch {
		case l.closed:
			rt.Mu.Unlock()
			return nil, fmt.Errorf("listener %s closed: %w", l.Name, net.ErrClosed)
		case len(l.errs) > 0:
			err := l.errs[0]
			l.errs = l.errs[1:]
			rt.Mu.Unlock()
			return nil, err
		case len(l.queue) > 0:
			c := l.queue[0]
			l.queue = l.queue[1:]
			rt.Mu.Unlock()
			l.Accepts++
			l.Accepted = append(l.Accepted, c)
			// the caller can be preempted between Accept's return and its next statement
			if t != nil {
				t.Park("listener.accepted " + l.Name)
			}
			return c, nil
		}
		if t == nil {
			rt.Mu.Unlock()
			panic("simnet: non-task goroutine would block in Accept")
		}
		l.waiter = append(l.waiter, t)
		t.BlockOn("listener.accept-wait "+l.Name, l)
	}
}

func (l *Listener) Close() error {
	_, t := verifsim.Current()
	l.CloseCalls++
	if t != nil {
		t.Park("listener.close " + l.Name)
	}
	l.closed = true
	// connections that were never accepted are reset, as a real listener does
	for _, c := range l.queue {
		if e, ok := c.(*Endpoint); ok {
			e.doClose()
		} else {
			_ = c.Close()
		}
	}
	l.queue = nil
	l.wake()
	return nil
}

func (l *Listener) Addr() net.Addr { return simAddr(l.Name) }

// Pending returns queued, not yet accepted connections.
func (l *Listener) Pending() []net.Conn { return l.queue }

// tempErr is a temporary net.Error for Accept.
type tempErr struct{}

func (tempErr) Error() string   { return "temporary accept failure" }
func (tempErr) Timeout() bool   { return false }
func (tempErr) Temporary() bool { return true }

func (n *Net) emptyP() float64 {
	if n.EmptyHeavy {
		return 0.45
	}
	return 0.03
}
