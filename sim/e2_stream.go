package sim

import (
	"context"
	"encoding/binary"
	"errors"
	"fmt"
	"io"
	"strings"

	"storj.io/drpc/drpcerr"
	"storj.io/drpc/drpcstream"
	"storj.io/drpc/drpcwire"
	"storj.io/drpc/verifsim"
)

func init() { engines["stream-model"] = runE2 }

// ---- reference state machine (written from state.dot, the package README and the
// property statement; it knows nothing of signals or locks) ------------------------------

// result classes of calls
const (
	rNil    = "nil"
	rEOF    = "EOF"
	rCancel = "cancel-err" // the error handed to Cancel / context.Canceled for a remote cancel
	rRemote = "remote-err" // the error the peer sent, text and code intact
	rOther  = "non-nil"    // any non-nil error
	rMsg    = "message"
	rBlock  = "would-block"
	rFatal  = "fatal" // HandlePacket reported a connection-fatal error
)

type smPacket struct {
	Idx     int // arrival index
	Kind    uint8
	Ctl     bool
	Payload []byte
	Foreign bool // carries another stream id
}

func (p smPacket) String() string {
	f := ""
	if p.Foreign {
		f = " foreign"
	}
	return fmt.Sprintf("pkt{k%d ctl=%v len=%d%s}", p.Kind, p.Ctl, len(p.Payload), f)
}

type smEvent struct {
	Op   string // send raw recv closesend close senderror sendcancel cancel flush | packet
	N    int    // payload size / raw kind
	Pkt  smPacket
	Task int // concurrent mode: which caller
}

func (e smEvent) String() string {
	if e.Op == "packet" {
		return e.Pkt.String()
	}
	return fmt.Sprintf("%s(%d)", e.Op, e.N)
}

type smModel struct {
	sendErr  string // "" open, else class returned by sends
	recvErr  string // "" open, else class returned by receives once the inbox is empty
	term     bool
	remoteText string
	remoteCode uint64
	slot     *[]byte    // message waiting in the one-slot inbox
	behind   []smPacket // peer packets queued behind a message nobody consumed yet
	emitted  []RPacket  // packets expected on the wire, in order
	verdict  map[int]string // per peer packet (by arrival index): "nil" or "fatal"
	cancelled bool      // cancelled by the peer (cancel packet) or locally (Cancel / SendCancel)
	manual   bool       // ManualFlush: messages stay buffered until something flushes
	pending  []RPacket  // buffered, not yet on the wire
}

// emit puts a packet on the wire; whatever was buffered goes out in front of it.
func (m *smModel) emit(p RPacket) {
	m.flushPending()
	m.emitted = append(m.emitted, p)
}

func (m *smModel) flushPending() {
	m.emitted = append(m.emitted, m.pending...)
	m.pending = nil
}

func (m *smModel) terminate(sendClass, recvClass string) {
	if m.sendErr == "" {
		m.sendErr = sendClass
	}
	if m.recvErr == "" {
		m.recvErr = recvClass
	}
	m.term = true
	// a message nobody consumed is dropped; whatever was queued behind it is
	// ignored because the stream is terminated
	m.slot = nil
	for _, p := range m.behind {
		m.verdict[p.Idx] = rNil
	}
	m.behind = nil
}

// packet applies one peer packet; it returns rFatal if the packet must be reported as
// connection-fatal.
func (m *smModel) packet(p smPacket) string {
	if m.verdict == nil {
		m.verdict = map[int]string{}
	}
	if m.slot != nil && !m.term {
		// the connection's reader is still busy handing over the previous message
		m.behind = append(m.behind, p)
		return rNil
	}
	v := m.process(p)
	m.verdict[p.Idx] = v
	return v
}

func (m *smModel) process(p smPacket) string {
	if p.Foreign || m.term {
		return rNil
	}
	switch p.Kind {
	case kMessage:
		if m.recvErr != "" {
			return rNil // a message after the peer closed its send side is dropped
		}
		b := p.Payload
		m.slot = &b
	case kCloseSend:
		if m.recvErr == "" {
			m.recvErr = rEOF
		}
		if m.sendErr != "" {
			m.terminate(rOther, rEOF)
		}
	case kClose:
		if m.recvErr == "" {
			m.recvErr = rEOF
		}
		m.terminate(rOther, rEOF)
	case kError:
		m.remoteText, m.remoteCode = "", 0
		if len(p.Payload) >= 8 {
			m.remoteCode = binary.BigEndian.Uint64(p.Payload[:8])
			m.remoteText = string(p.Payload[8:])
		} else {
			// malformed error payload: some error must still be reported
			m.terminate(rEOF, rOther)
			return rNil
		}
		m.terminate(rEOF, rRemote)
	case kCancel:
		if !m.term {
			m.cancelled = true
		}
		m.terminate(rEOF, rCancel)
	case kInvoke:
		m.terminate(rOther, rOther)
		return rFatal
	default:
		if p.Ctl {
			return rNil // unknown control packets are ignored
		}
		m.terminate(rOther, rOther)
		return rFatal
	}
	return rNil
}

// drain processes packets queued behind a consumed message.
func (m *smModel) drain() {
	q := m.behind
	m.behind = nil
	for i, p := range q {
		m.verdict[p.Idx] = m.process(p)
		if m.slot != nil && !m.term {
			m.behind = append(m.behind, q[i+1:]...)
			return
		}
	}
}

// call applies one local call and returns the expected result class.
func (m *smModel) call(ev smEvent, sid uint64) string {
	switch ev.Op {
	case "send", "raw":
		if m.sendErr != "" {
			return m.sendErr
		}
		kind := uint8(kMessage)
		if ev.Op == "raw" {
			kind = uint8(ev.N % 64)
		}
		if m.manual {
			m.pending = append(m.pending, RPacket{Stream: sid, Kind: kind, Data: make([]byte, ev.size())})
		} else {
			m.emitted = append(m.emitted, RPacket{Stream: sid, Kind: kind, Data: make([]byte, ev.size())})
		}
		return rNil
	case "flush":
		if !m.manual {
			return "any"
		}
		switch {
		case len(m.pending) == 0:
			return rNil
		case m.cancelled:
			return rCancel // a flush on a cancelled stream reports the cancellation
		case m.sendErr != "":
			return rOther // nothing may reach the wire once the send side is closed or the stream terminated
		}
		m.flushPending()
		return rNil
	case "recv":
		if m.slot == nil && m.recvErr == "" {
			return rBlock
		}
		// a receive pushes out what the application buffered (while the send side is open)
		if m.manual && m.sendErr == "" {
			m.flushPending()
		}
		if m.slot != nil {
			m.slot = nil
			m.drain()
			return rMsg
		}
		return m.recvErr
	case "closesend":
		if m.sendErr != "" || m.term {
			return rNil
		}
		m.sendErr = rOther
		m.emit(RPacket{Stream: sid, Kind: kCloseSend})
		if m.recvErr != "" {
			m.terminate(rOther, rOther)
		}
		return rNil
	case "close":
		if m.term {
			return rNil
		}
		m.emit(RPacket{Stream: sid, Kind: kClose})
		m.terminate(rOther, rOther)
		return rNil
	case "senderror":
		if m.term {
			return rNil
		}
		m.emit(RPacket{Stream: sid, Kind: kError, Data: make([]byte, 8+len(e2ErrText))})
		m.terminate(rEOF, rOther)
		return rNil
	case "sendcancel":
		if m.term {
			return rNil
		}
		m.emit(RPacket{Stream: sid, Kind: kCancel, Ctl: true})
		m.terminate(rEOF, rCancel)
		return rNil
	case "cancel":
		if m.term {
			return "any"
		}
		m.cancelled = true
		m.terminate(rEOF, rCancel)
		return "any"
	}
	return "any"
}

func (e smEvent) size() int {
	if e.Op == "raw" {
		return e.N / 64
	}
	return e.N
}

const e2ErrText = "model error text"

var errE2Cancel = errors.New("e2 cancel cause")

// ---- engine -----------------------------------------------------------------------------

type e2 struct {
	spec RunSpec
	res  *RunResult
	ch   *Choices
	rt   *verifsim.Runtime
	d    *Director
	net  *Net
	ep, peer *Endpoint
	manual   bool
	lateWrites map[string]int // concurrent mode: per task, transport writes with message frames begun on a terminated stream during the current call
	mon  *WireMonitor
	st   *drpcstream.Stream
	sid  uint64
	feedQ []smPacket
	feedFatal []string
	feedWG  int
}

func (x *e2) viol(oracle, sig, detail string) {
	x.d.Logf("  VIOL %s %s", oracle, sig)
	for _, v := range x.res.Viol {
		if v.Sig == sig {
			return
		}
	}
	x.res.Viol = append(x.res.Viol, Violation{Prop: x.spec.Prop, Oracle: oracle, Sig: sig, Detail: detail, Step: x.d.Step})
}

func classOf(err error, cancelCause error) string {
	switch {
	case err == nil:
		return rNil
	case err == io.EOF:
		return rEOF
	case errors.Is(err, cancelCause) || errors.Is(err, context.Canceled):
		return rCancel
	}
	return rOther
}

// exec performs one local call on the real stream and returns its result class.
func (x *e2) exec(ev smEvent) (class string, detail string) {
	st := x.st
	switch ev.Op {
	case "send":
		err := st.MsgSend(&Msg{B: make([]byte, ev.N)}, rawEnc{})
		return classOf(err, errE2Cancel), errStr(err)
	case "raw":
		err := st.RawWrite(drpcwire.Kind(ev.N%64), make([]byte, ev.size()))
		return classOf(err, errE2Cancel), errStr(err)
	case "flush":
		err := st.RawFlush()
		return classOf(err, errE2Cancel), errStr(err)
	case "recv":
		var m Msg
		var err error
		if ev.N%2 == 0 {
			err = st.MsgRecv(&m, rawEnc{})
		} else {
			_, err = st.RawRecv()
		}
		if err == nil {
			return rMsg, ""
		}
		c := classOf(err, errE2Cancel)
		if c == rOther && err.Error() == e2ErrText && drpcerr.Code(err) == 77 {
			c = rRemote
		}
		return c, errStr(err)
	case "closesend":
		err := st.CloseSend()
		return classOf(err, errE2Cancel), errStr(err)
	case "close":
		err := st.Close()
		return classOf(err, errE2Cancel), errStr(err)
	case "senderror":
		err := st.SendError(drpcerr.WithCode(errors.New(e2ErrText), 77))
		return classOf(err, errE2Cancel), errStr(err)
	case "sendcancel":
		busy, err := st.SendCancel(errE2Cancel)
		if busy {
			return "busy", ""
		}
		return classOf(err, errE2Cancel), errStr(err)
	case "cancel":
		st.Cancel(errE2Cancel)
		return "any", ""
	}
	return "any", ""
}

func (x *e2) toWire(p smPacket) drpcwire.Packet {
	sid := x.sid
	if p.Foreign {
		sid = x.sid + 1 + uint64(len(p.Payload)%3)
	}
	return drpcwire.Packet{Data: p.Payload, ID: drpcwire.ID{Stream: sid, Message: 1}, Kind: drpcwire.Kind(p.Kind), Control: p.Ctl}
}

func sigClosed(c <-chan struct{}) bool {
	select {
	case <-c:
		return true
	default:
		return false
	}
}

func (x *e2) genEvent(st string, concurrent bool) smEvent {
	ch := x.ch
	if ch.Bool(st, 0.45) {
		p := smPacket{}
		switch ch.Weighted(st, []int{6, 3, 2, 3, 2, 1, 1, 3, 2}) {
		case 0:
			p.Kind = kMessage
			p.Payload = make([]byte, ch.Pick(st, 30))
		case 1:
			p.Kind = kCloseSend
		case 2:
			p.Kind = kClose
		case 3:
			p.Kind = kError
			p.Payload = binary.BigEndian.AppendUint64(nil, 77)
			p.Payload = append(p.Payload, e2ErrText...)
			if ch.Bool(st, 0.2) {
				p.Payload = p.Payload[:ch.Pick(st, 8)] // malformed: shorter than the code
			}
		case 4:
			p.Kind = kCancel
			p.Ctl = true
		case 5:
			p.Kind = kInvoke
			p.Payload = []byte("/x")
		case 6:
			p.Kind = kInvokeMD
		case 7: // unknown kind with control bit
			p.Kind = uint8(8 + ch.Pick(st, 56))
			p.Ctl = true
			p.Payload = make([]byte, ch.Pick(st, 5))
		case 8: // unknown kind without control bit
			p.Kind = uint8(8 + ch.Pick(st, 56))
		}
		if ch.Bool(st, 0.12) {
			p.Foreign = true
		}
		return smEvent{Op: "packet", Pkt: p}
	}
	ops := []string{"send", "recv", "closesend", "close", "senderror", "sendcancel", "cancel", "raw", "flush"}
	op := ops[ch.Weighted(st, []int{6, 6, 3, 2, 2, 1, 2, 2, 1})]
	ev := smEvent{Op: op}
	switch op {
	case "send":
		ev.N = []int{0, 1, 5, 40, 200}[ch.Pick(st, 5)]
	case "raw":
		ev.N = int(kMessage) + 64*ch.Pick(st, 20)
	case "recv":
		ev.N = ch.Pick(st, 2)
	}
	return ev
}

func runE2(spec RunSpec, ch *Choices) *RunResult {
	res := &RunResult{Index: spec.Index, Seed: spec.Seed, Engine: "stream-model", Mode: spec.Prop}
	x := &e2{spec: spec, res: res, ch: ch}
	classes := uint32(0)
	if ch.Bool("cfg", 0.5) {
		classes |= verifsim.ClassLock
	}
	x.rt = verifsim.New(classes)
	x.rt.SelectChoice = func(t *verifsim.Task, k int, n uint32) uint32 { return uint32(ch.Draw("sel:"+t.Name, int(n), nil)) }
	verifsim.Attach(x.rt)
	defer verifsim.Detach()
	x.d = NewDirector(x.rt, ch, 20000)
	x.d.Verbose = spec.Verbose
	x.d.DrawPolicy()
	x.net = &Net{D: x.d, RT: x.rt, Ch: ch}
	x.ep, x.peer = x.net.Pipe("s", -1)
	x.mon = &WireMonitor{Name: "stream"}
	x.net.OnWrite = func(e *Endpoint, p []byte) {
		if e == x.ep {
			x.mon.Write(p)
		}
	}
	// invariant at every step: a finished stream has no write in flight
	finSeen := false
	x.d.AfterStep = func() bool {
		// ... and the stream's context is done only once the stream is finished
		if x.st != nil && sigClosed(x.st.Context().Done()) && !sigClosed(x.st.Finished()) {
			x.viol("finished-early", "stream context is done before the stream is finished (an operation may still be in flight)", "")
		}
		if x.st != nil && sigClosed(x.st.Finished()) {
			for _, t := range x.rt.Tasks() {
				// a receive parked inside its decoder still holds the delivered packet: it is in flight.
				// Judged at the step in which finished is first seen (a receive that BEGINS on a
				// finished stream while a Cancel is still inside terminate may yet get a message)
				if !finSeen && t.State == verifsim.StReady && t.Label == "enc.Unmarshal" {
					x.viol("finished-early", "stream reports finished while one of its receives is still decoding the delivered message", t.Name+" "+t.Label)
				}
				if t.State != verifsim.StExited && strings.HasPrefix(t.Label, "net.write") {
					x.viol("finished-early", "stream reports finished while one of its writes is still in flight in the transport: op="+t.API, t.Name+" "+t.Label)
				}
			}
			finSeen = true
		}
		return false
	}
	concurrent := ch.Bool("cfg", 0.35)
	x.sid = uint64(1 + ch.Pick("cfg", 5))
	opts := drpcstream.Options{SplitSize: []int{0, 1, 7, -1}[ch.Pick("cfg", 4)], ManualFlush: ch.Bool("cfg", 0.3)}
	wbuf := 1
	if concurrent {
		wbuf = []int{1, 0, 64}[ch.Pick("cfg", 3)]
	} else if opts.ManualFlush {
		wbuf = 1 << 16 // nothing reaches the transport before a flush
	}
	x.manual = opts.ManualFlush
	wr := drpcwire.NewWriter(x.ep, wbuf)
	x.st = drpcstream.NewWithOptions(context.Background(), x.sid, wr, opts)
	x.d.Logf("RUN seed=%d index=%d engine=stream-model concurrent=%v sid=%d split=%d manual=%v wbuf=%d policy=%s", spec.Seed, spec.Index, concurrent, x.sid, opts.SplitSize, opts.ManualFlush, wbuf, policyNames[x.d.Policy])
	if concurrent {
		x.runConcurrent()
	} else {
		x.runSequential()
	}
	for _, t := range x.rt.Tasks() {
		if t.Panic != nil {
			x.viol("panic", "panic: "+trunc(fmt.Sprint(t.Panic), 80), t.Name+"\n"+t.Stack)
		}
	}
	res.Hash = x.d.LogHash()
	res.Steps = x.d.Step
	res.States = len(x.d.States)
	for s := range x.d.States {
		res.StateSet = append(res.StateSet, s)
	}
	res.Preempt = x.d.Preempt
	res.Lines = x.d.Lines
	res.Decisions = x.d.Decisions
	res.Draws = ch.Draws
	res.Nontrivial = true
	return res
}

// runSequential: one event at a time, each driven to quiescence, compared with the
// model event by event.
func (x *e2) runSequential() {
	n := 1 + x.ch.Pick("cfg", 9)
	var events []smEvent
	for i := 0; i < n; i++ {
		events = append(events, x.genEvent(fmt.Sprintf("ev%d", i), false))
	}
	var desc []string
	for _, e := range events {
		desc = append(desc, e.String())
	}
	x.res.Desc = map[string]any{"mode": "sequential", "history": desc}
	x.d.Logf("  history %v", desc)
	m := &smModel{manual: x.manual}
	// the feeder hands peer packets to HandlePacket one after the other, like the
	// manager's reader does
	var feedIn []smPacket
	feedPos := 0
	feederIdle := true
	x.rt.Spawn("feeder", func() {
		for {
			for feedPos >= len(feedIn) {
				feederIdle = true
				_, t := verifsim.Current()
				x.rt.Mu.Lock()
				t.BlockOn("feeder-idle", x)
			}
			feederIdle = false
			p := feedIn[feedPos]
			feedPos++
			if p.Kind == 255 {
				return
			}
			err := x.st.HandlePacket(x.toWire(p))
			cls := rNil
			if err != nil {
				cls = rFatal
			}
			x.feedFatal = append(x.feedFatal, cls)
		}
	})
	var feederTask *verifsim.Task
	for _, t := range x.rt.Tasks() {
		if t.Name == "feeder" {
			feederTask = t
		}
	}
	wake := func() {
		x.rt.Mu.Lock()
		feederTask.MakeReady("feeder-wake")
		x.rt.Mu.Unlock()
	}
	emittedBefore := 0
	npk := 0
	for i, ev := range events {
		if ev.Op == "packet" {
			ev.Pkt.Idx = npk
			npk++
			m.packet(ev.Pkt)
			feedIn = append(feedIn, ev.Pkt)
			if feederIdle {
				wake()
			}
			if !x.d.Run() {
				x.res.Inconcl = true
				return
			}
		} else {
			want := m.call(ev, x.sid)
			if want == rBlock {
				x.d.Logf("  ev%d %s skipped (would block)", i, ev)
				continue
			}
			var got, detail string
			done := false
			x.rt.Spawn(fmt.Sprintf("caller%d", i), func() {
				_, t := verifsim.Current()
				t.SetAPI(ev.Op)
				got, detail = x.exec(ev)
				t.SetAPI("")
				done = true
			})
			if !x.d.Run() {
				x.res.Inconcl = true
				return
			}
			if !done {
				x.viol("model", fmt.Sprintf("call blocked for ever where the state machine says it returns: op=%s want=%s", ev.Op, want), fmt.Sprintf("event %d of %v", i, desc))
				return
			}
			x.d.Logf("  ev%d %s -> %s (%s) want %s", i, ev, got, detail, want)
			if want != "any" && got != want && !(want == rOther && (got == rCancel || got == rEOF) && false) {
				// "non-nil" accepts every non-nil class
				if !(want == rOther && got != rNil && got != rMsg) {
					x.viol("model", fmt.Sprintf("call result differs from the state machine: op=%s got=%s want=%s", ev.Op, got, want), fmt.Sprintf("event %d of %v: %s", i, desc, detail))
				}
			}
		}
		// signals after every event
		term, fin := sigClosed(x.st.Terminated()), sigClosed(x.st.Finished())
		ctxDone := sigClosed(x.st.Context().Done())
		if term != m.term {
			x.viol("model", fmt.Sprintf("terminated signal differs from the state machine: got=%v want=%v after=%s", term, m.term, evClass(ev)), fmt.Sprintf("event %d of %v", i, desc))
		}
		if fin != m.term {
			x.viol("model", fmt.Sprintf("finished signal differs (stream idle): got=%v want=%v after=%s", fin, m.term, evClass(ev)), fmt.Sprintf("event %d of %v", i, desc))
		}
		if ctxDone != fin {
			x.viol("model", "stream context done differs from finished", fmt.Sprintf("event %d of %v", i, desc))
		}
		if ctxDone && x.st.Context().Err() != context.Canceled {
			x.viol("model", "stream context error is not context.Canceled once done", fmt.Sprint(x.st.Context().Err()))
		}
		// emitted packets (writer buffer size 1: every frame reaches the transport at once)
		if len(x.mon.Viol) > 0 {
			x.viol("model", "emitted bytes are not a valid frame stream: "+stripNums(x.mon.Viol[0]), x.mon.Viol[0])
		}
		got := x.mon.Packets
		if len(got) != len(m.emitted) {
			x.viol("model", fmt.Sprintf("number of emitted packets differs from the state machine after=%s: got%swant", evClass(ev), cmpSign(len(got), len(m.emitted))), fmt.Sprintf("event %d of %v: got %v want %v", i, desc, got, m.emitted))
			return
		}
		for j := emittedBefore; j < len(got); j++ {
			g, w := got[j], m.emitted[j]
			if g.Kind != w.Kind || g.Ctl != w.Ctl || len(g.Data) != len(w.Data) || g.Stream != w.Stream {
				x.viol("model", fmt.Sprintf("emitted packet differs from the state machine after=%s: got k%d ctl=%v want k%d ctl=%v len-equal=%v", evClass(ev), g.Kind, g.Ctl, w.Kind, w.Ctl, len(g.Data) == len(w.Data)), fmt.Sprintf("event %d of %v: got %v want %v", i, desc, g, w))
			}
			if g.Kind == kError && len(g.Data) >= 8 {
				if binary.BigEndian.Uint64(g.Data[:8]) != 77 || string(g.Data[8:]) != e2ErrText {
					x.viol("model", "error packet payload is not 8-byte big-endian code followed by the text", fmt.Sprintf("%x", g.Data))
				}
			}
		}
		emittedBefore = len(got)
	}
	// HandlePacket results for the packets that were actually processed
	x.checkFatal(m, desc)
	feedIn = append(feedIn, smPacket{Kind: 255})
	if feederIdle {
		wake()
	}
	x.d.Run()
}

func evClass(ev smEvent) string {
	if ev.Op == "packet" {
		c := "pkt-k" + fmt.Sprint(ev.Pkt.Kind)
		if ev.Pkt.Kind >= 8 {
			c = "pkt-unknown"
		}
		if ev.Pkt.Ctl {
			c += "-ctl"
		}
		if ev.Pkt.Foreign {
			c += "-foreign"
		}
		return c
	}
	return ev.Op
}

// checkFatal compares the connection-fatal verdicts of HandlePacket (in arrival
// order) with the state machine's.
func (x *e2) checkFatal(m *smModel, desc []string) {
	for i, got := range x.feedFatal {
		want, ok := m.verdict[i]
		if !ok {
			continue
		}
		if got != want {
			x.viol("model", fmt.Sprintf("HandlePacket connection-fatal verdict differs from the state machine: got=%s want=%s", got, want), fmt.Sprintf("packet #%d of %v", i, desc))
		}
	}
}

// runConcurrent: 2-3 caller tasks plus the feeder, with writes parked in the
// transport; order independent rules only.
func (x *e2) runConcurrent() {
	ncall := 2 + x.ch.Pick("cfg", 2)
	stall := x.ch.Bool("cfg", 0.4)
	if stall {
		x.peer.StalledIn = true
	}
	var desc []string
	var pkts []smPacket
	np := x.ch.Pick("cfg", 5)
	for i := 0; i < np; i++ {
		ev := x.genEvent("feed", true)
		// (bounded: a replayed tape that has run out only yields defaults)
		for try := 0; ev.Op != "packet" && try < 64; try++ {
			ev = x.genEvent("feed", true)
		}
		if ev.Op != "packet" {
			ev = smEvent{Op: "packet", Pkt: smPacket{Kind: kMessage}}
		}
		pkts = append(pkts, ev.Pkt)
	}
	desc = append(desc, fmt.Sprintf("feeder%v", pkts))
	type res struct {
		ev    smEvent
		class string
		start, end int
		termAtStart bool
		task string
	}
	var results []*res
	emitAtTermCheck := -1
	x.rt.Spawn("feeder", func() {
		for _, p := range pkts {
			verifsim.Yield(verifsim.ClassApp, "feed")
			x.st.HandlePacket(x.toWire(p))
		}
	})
	// a call that finds the stream terminated stops writing: at most one transport
	// write carrying message frames may BEGIN on a terminated stream per call (the
	// one whose termination check had just passed)
	x.lateWrites = map[string]int{}
	x.net.OnWrite = func(e *Endpoint, p []byte) {
		if e != x.ep {
			return
		}
		x.mon.Write(p)
		if !x.st.IsTerminated() {
			return
		}
		for b := p; len(b) > 0; {
			fr, ok, err := refParseFrame(b)
			if !ok || err != nil {
				break
			}
			if fr.Kind == kMessage {
				x.lateWrites[taskName()]++
				break
			}
			b = b[fr.Size:]
		}
	}
	for c := 0; c < ncall; c++ {
		st := fmt.Sprintf("caller%d", c)
		nops := 1 + x.ch.Pick(st, 3)
		var evs []smEvent
		for i := 0; i < nops; i++ {
			ev := x.genEvent(st, true)
			for try := 0; ev.Op == "packet" && try < 64; try++ {
				ev = x.genEvent(st, true)
			}
			if ev.Op == "packet" {
				ev = smEvent{Op: "send", N: 1}
			}
			evs = append(evs, ev)
		}
		desc = append(desc, fmt.Sprintf("%s%v", st, evs))
		x.rt.Spawn(st, func() {
			for _, ev := range evs {
				verifsim.Yield(verifsim.ClassApp, "call "+ev.Op)
				r := &res{ev: ev, start: x.d.Step, termAtStart: x.st.IsTerminated()}
				results = append(results, r)
				_, t := verifsim.Current()
				r.task = t.Name
				t.SetAPI(ev.Op)
				x.lateWrites[t.Name] = 0
				r.class, _ = x.exec(ev)
				t.SetAPI("")
				r.end = x.d.Step
				if n := x.lateWrites[t.Name]; n > 1 {
					x.viol("concurrent", fmt.Sprintf("a call kept handing message frames to the transport after the stream was terminated: op=%s result=%s", ev.Op, r.class), fmt.Sprintf("%d writes begun on the terminated stream", n))
				}
			}
		})
	}
	x.res.Desc = map[string]any{"mode": "concurrent", "stall": stall, "tasks": desc}
	x.d.Logf("  %v stall=%v", desc, stall)
	q := x.d.Run()
	if q && stall && !x.manual {
		// with automatic flushing only the stream's FIRST receive may need the write
		// lock (to push out a corked invoke), and only if no send came before it: a
		// receive that began after a send of this stream had begun never waits for
		// the write lock, even while that send is parked in the transport
		// (a MsgSend that holds the write lock has consumed the first-receive flush
		// before it took the lock, so no receive can be queued behind it)
		sendParked := false
		for _, t := range x.rt.Tasks() {
			if t.State == verifsim.StWaiting && t.API == "send" && strings.HasPrefix(t.Label, "net.write") {
				sendParked = true
			}
		}
		for _, t := range x.rt.Tasks() {
			if sendParked && t.State == verifsim.StWaiting && t.API == "recv" && t.Label == "mutex:RawFlush" {
				x.viol("concurrent", "a receive waits for the write lock behind a send of its own stream (automatic flushing)", t.Name+" "+t.Label)
			}
		}
	}
	if q && stall {
		x.peer.Heal()
		q = x.d.Run()
	}
	if !q {
		x.res.Inconcl = true
		return
	}
	_ = emitAtTermCheck
	// half-closed on both sides means terminated: a CloseSend of ours returned nil
	// and the peer's half-close was handled (the feeder is done with its packets)
	{
		ourClose, peerClose, feederDone := false, false, true
		for _, r := range results {
			if r.ev.Op == "closesend" && r.class == rNil && r.end > 0 {
				ourClose = true
			}
		}
		for _, p := range pkts {
			if p.Kind == kCloseSend && !p.Foreign {
				peerClose = true
			}
		}
		for _, t := range x.rt.Tasks() {
			if t.Name == "feeder" && t.State != verifsim.StExited {
				feederDone = false
			}
		}
		if ourClose && peerClose && feederDone && !sigClosed(x.st.Terminated()) {
			x.viol("concurrent", "stream half-closed by both sides is not terminated", "")
		}
	}
	// a final Close makes sure the stream terminates, then everything must settle
	x.rt.Spawn("finalizer", func() {
		verifsim.Yield(verifsim.ClassApp, "final close")
		x.st.Close()
	})
	if !x.d.Run() {
		x.res.Inconcl = true
		return
	}
	var blocked []string
	for _, t := range x.rt.Tasks() {
		if t.State != verifsim.StExited && t.State != verifsim.StPending {
			blocked = append(blocked, t.Name+":"+t.API+"@"+whereClass(t.Label))
		}
	}
	if len(blocked) > 0 {
		var bl []string
		for _, b := range blocked {
			bl = append(bl, stripNums(b))
		}
		x.viol("concurrent", "operation blocked for ever on a terminated stream with a flowing transport: "+strings.Join(bl, " "), strings.Join(blocked, " "))
	}
	if !sigClosed(x.st.Terminated()) {
		x.viol("concurrent", "stream not terminated after Close returned", "")
	} else if len(blocked) == 0 {
		if !sigClosed(x.st.Finished()) || !sigClosed(x.st.Context().Done()) {
			x.viol("concurrent", "stream terminated and idle but not finished / context not done", "")
		}
	}
	for _, v := range x.mon.Viol {
		x.viol("concurrent", "emitted bytes are not a valid frame stream: "+stripNums(v), v)
	}
	// idempotence: a terminal call that began on an already terminated stream returns nil
	for _, r := range results {
		if r.termAtStart && r.class != "" {
			switch r.ev.Op {
			case "close", "closesend", "senderror":
				if r.class != rNil {
					x.viol("concurrent", fmt.Sprintf("terminal call on an already terminated stream did not return nil: op=%s got=%s", r.ev.Op, r.class), "")
				}
			case "send", "raw":
				if r.class == rNil {
					x.viol("concurrent", "send on an already terminated stream succeeded", "")
				}
			case "recv":
				if r.class == rMsg {
					// a message may still be in the slot only if termination came from the peer
				}
			}
		}
	}
	// exactly one terminal packet kind sequence: no frame may follow a Close/Error/Cancel packet of this stream
	seenTerminal := false
	for _, p := range x.mon.Packets {
		if seenTerminal && (p.Kind == kClose || p.Kind == kError || p.Kind == kCancel || p.Kind == kCloseSend) {
			x.viol("concurrent", fmt.Sprintf("a second terminal packet (k%d) was emitted after the stream's terminal packet", p.Kind), fmt.Sprint(x.mon.Packets))
		}
		if p.Kind == kClose || p.Kind == kError || p.Kind == kCancel {
			seenTerminal = true
		}
	}
}
