package sim

import (
	"fmt"
	"time"
)

// ---- configuration ---------------------------------------------------------

type E1Config struct {
	SoftC, SoftS bool
	Split        int
	WBuf         int
	Manual       bool
	StreamMax    int
	ReaderMax    int
	Inactivity   time.Duration
	NetCap       int
	TCP          bool
	Serve        bool
	LockYields   bool
	EmptyReads   bool
	EmptyHeavy   bool // about every other read returns (0, nil)
	Stats        bool // CollectStats on the client connection and the server
}

func (c E1Config) String() string {
	return fmt.Sprintf("softC=%v softS=%v split=%d wbuf=%d manual=%v smax=%d rmax=%d inact=%s cap=%d tcp=%v serve=%v lockY=%v emptyR=%v%s",
		c.SoftC, c.SoftS, c.Split, c.WBuf, c.Manual, c.StreamMax, c.ReaderMax, c.Inactivity, c.NetCap, c.TCP, c.Serve, c.LockYields, c.EmptyReads, map[bool]string{true: "(heavy)"}[c.EmptyHeavy]+map[bool]string{true: " stats"}[c.Stats])
}

// ---- program ---------------------------------------------------------------

const (
	ShUnary = iota
	ShCStream
	ShSStream
	ShBidi
)

var shapeNames = []string{"unary", "cstream", "sstream", "bidi"}

const (
	OpSend = iota
	OpRecv
	OpRecvAll
	OpCloseSend
	OpClose
	OpFlush
	OpWaitCtx
	OpJoin
	OpSendErr // handler only: stream.SendError directly (rare)
	OpDelay   // let Size scheduling points pass
	OpSleep   // sleep Size x 100 ms of simulated time
)

var opNames = []string{"Send", "Recv", "RecvAll", "CloseSend", "Close", "Flush", "WaitCtx", "Join", "SendErr", "Delay"}

type Op struct {
	Kind   int
	Size   int
	Sender int
	Seq    int
	Bad    bool // the message cannot be decoded by the receiver's encoding (first byte 0xEE)
	Unenc  bool // the message cannot be encoded by the sender's encoding (first byte 0xEF): the send fails, nothing is sent
}

func (o Op) String() string {
	if o.Kind == OpSend {
		if o.Unenc {
			return fmt.Sprintf("Send(%d,s%d#%d,unencodable)", o.Size, o.Sender, o.Seq)
		}
		if o.Bad {
			return fmt.Sprintf("SendUndecodable(%d,s%d#%d)", o.Size, o.Sender, o.Seq)
		}
		return fmt.Sprintf("Send(%d,s%d#%d)", o.Size, o.Sender, o.Seq)
	}
	if o.Kind == OpSleep {
		return fmt.Sprintf("Sleep(%dms)", o.Size*100)
	}
	if o.Kind == OpDelay {
		return fmt.Sprintf("Delay(%d)", o.Size)
	}
	return opNames[o.Kind]
}

// Handler return kinds.
const (
	RetNil = iota
	RetErr
	RetResp // unary only: response message
)

// Client script endings.
const (
	EndClose       = iota // stream.Close()
	EndCloseCancel        // stream.Close() then cancel()
	EndCancel             // cancel() only (abandon the stream)
	EndNothing            // just stop using the stream (next RPC supersedes it)
)

var endNames = []string{"close", "close+cancel", "cancel", "nothing"}

type ErrSpec struct {
	Msg   string
	Code  uint64
	Depth int // wrapping depth at which the code is attached
	Style int // 0 Unwrap chain, 1 Cause chain, 2 errs.Wrap
}

type RPCSpec struct {
	Idx     int
	Shape   int
	Unknown bool // call an unregistered rpc name
	BadMarshal bool // unary: the request cannot be encoded
	Meta    map[string]string // what the handler must see
	HasMeta bool
	// how the application attaches it: 0 AddPairs(fresh map); 1 AddPairs(the
	// application's long-lived shared map) then Add for the per-call pairs;
	// 2 Add pair by pair
	MetaStyle  int
	MetaExtras map[string]string
	ReqSize int

	COps []Op
	CAux [][]Op
	CEnd int
	flushClose bool

	HOps []Op
	HAux [][]Op
	HRet int
	HErr ErrSpec
	Resp int // unary response size

	Cancel     bool // a canceller task cancels the RPC's context at an arbitrary instant
	Deadline   bool // ... and the context ends as an expired deadline (Err() == DeadlineExceeded)
	RespToo    bool // unary handler failing: it returns a response object together with its error
	CancelDelay int // number of scheduling points the canceller lets pass first
	Task       int  // client task issuing this RPC
	Misbehaved bool // scripts were truncated / do not follow the conversation to its end
	Duplex     bool
	TwoRecvC, TwoRecvH bool // two concurrent receivers on the client / handler side
	Clean      bool // eligible for the completeness clause
}

func (r *RPCSpec) Name() string {
	if r.Unknown {
		return fmt.Sprintf("/sim/unknown/%d", r.Idx)
	}
	return fmt.Sprintf("/sim/%s/%d", shapeNames[r.Shape], r.Idx)
}

func (r *RPCSpec) String() string {
	s := fmt.Sprintf("rpc%d %s task=%d", r.Idx, shapeNames[r.Shape], r.Task)
	if r.Unknown {
		s += " unknown-name"
	}
	if r.BadMarshal {
		s += " unencodable-request"
	}
	if r.HasMeta {
		s += fmt.Sprintf(" meta(style%d)=", r.MetaStyle) + fmtMap(r.Meta)
	}
	if r.Shape == ShUnary || r.Shape == ShSStream {
		s += fmt.Sprintf(" req=%d", r.ReqSize)
	}
	if r.Shape != ShUnary {
		s += fmt.Sprintf(" C%v", r.COps)
		for _, a := range r.CAux {
			s += fmt.Sprintf("+%v", a)
		}
		s += " end=" + endNames[r.CEnd]
	}
	s += fmt.Sprintf(" H%v", r.HOps)
	for _, a := range r.HAux {
		s += fmt.Sprintf("+%v", a)
	}
	switch r.HRet {
	case RetNil:
		s += " ret=nil"
	case RetErr:
		s += fmt.Sprintf(" ret=err(code=%d,len=%d,depth=%d)", r.HErr.Code, len(r.HErr.Msg), r.HErr.Depth)
		if r.RespToo {
			s += "+resp"
		}
	case RetResp:
		s += fmt.Sprintf(" ret=resp(%d)", r.Resp)
	}
	if r.Cancel {
		s += fmt.Sprintf(" +canceller(delay=%d)", r.CancelDelay)
		if r.Deadline {
			s += "(deadline)"
		}
	}
	return s
}

type FaultTask struct {
	Kind  string // stall-c2s, stall-s2c, close-client-conn, close-server-tr, close-client-tr, cancel-serve ...
	Delay int    // number of scheduling points the fault task lets pass first
}

type E1Prog struct {
	Cfg       E1Config
	RPCs      []*RPCSpec
	NTasks    int
	IOFaults  map[string][]*Fault // endpoint name -> faults
	FaultTask []FaultTask
	Probe     bool
}

func (p *E1Prog) Describe() []string {
	out := []string{"cfg: " + p.Cfg.String()}
	for _, r := range p.RPCs {
		out = append(out, r.String())
	}
	for ep, fs := range p.IOFaults {
		for _, f := range fs {
			out = append(out, fmt.Sprintf("iofault %s op=%d kind=%s partial=%d", ep, f.Op, f.Kind, f.Partial))
		}
	}
	for _, f := range p.FaultTask {
		out = append(out, fmt.Sprintf("faulttask %s delay=%d", f.Kind, f.Delay))
	}
	return out
}

// ---- mode (what a property's check asks the generator for) ---------------------

type E1Mode struct {
	Prop        string
	MaxRPCs     int
	MaxTasks    int
	Duplex      float64 // probability an RPC is a multi-sender duplex stream
	Misbehave   float64 // probability a streaming RPC's scripts are truncated / abandoned
	CancelP     float64 // probability an RPC gets a canceller task
	ErrP        float64 // probability a handler returns an error
	UnknownP    float64
	MetaP       float64
	BigP        float64 // probability of a large message
	Probe       bool
	ForceSoftC  int // -1 draw, 0 off, 1 on
	StallP      float64 // probability of a stall fault task (heals in phase 2 if StallHeals)
	StallHeals  bool
	IOFaults    bool // planned by the runner (fault enumeration) rather than drawn
	CloseFaults float64
	Byz         float64
	SmallNet    float64 // probability of a tiny network capacity
	NoInact     bool
	OnlyUnaryP  float64
	ManualOK    bool
	ServeP      float64
	Catalog     bool
	CloserP     float64 // probability that a duplex rpc gets a concurrent closer task
	StormP      float64 // probability of the "unary storm" program family
	PooledP     float64 // probability of the pooled family (client calls go through drpcpool)
	ServeCancelP float64 // probability that the server's context is cancelled at a scheduler-chosen instant
	BadMsgP     float64 // probability that a conversation message is undecodable / a unary request unencodable
	WriteFaultP float64 // probability of one drawn write error (fail-stop) on either endpoint
}

func e1ModeFor(prop string) E1Mode {
	m := E1Mode{Prop: prop, MaxRPCs: 4, MaxTasks: 1, ForceSoftC: -1, Probe: true, ManualOK: true, ServeP: 0.15}
	switch prop {
	case "C01":
		m.Duplex, m.BigP, m.SmallNet, m.MaxRPCs, m.CloserP, m.BadMsgP = 0.5, 0.3, 0.4, 3, 0.25, 0.03
	case "C02":
		m.MaxRPCs, m.MaxTasks, m.Misbehave, m.CancelP, m.ErrP, m.OnlyUnaryP, m.StormP = 6, 3, 0.4, 0.35, 0.3, 0.2, 0.25
		m.MetaP = 0.3
	case "C04":
		m.MaxRPCs, m.CancelP, m.Duplex, m.StallP, m.SmallNet, m.Misbehave, m.CloserP, m.ServeCancelP = 2, 0.9, 0.6, 0.5, 0.5, 0.2, 0.6, 0.15
		m.MaxTasks, m.OnlyUnaryP = 2, 0.3
	case "C05":
		m.MaxRPCs, m.IOFaults, m.ErrP, m.Misbehave, m.Duplex, m.ServeP, m.NoInact, m.MetaP = 3, true, 0.2, 0.2, 0.2, 0, true, 0.3
	case "C06":
		m.MaxRPCs, m.Misbehave, m.CancelP, m.ErrP, m.ForceSoftC, m.StallP, m.StallHeals, m.MetaP, m.BadMsgP, m.SmallNet = 4, 0.7, 0.4, 0.3, 1, 0.2, true, 0.4, 0.06, 0.25
	case "C07":
		m.MaxRPCs, m.MaxTasks, m.Duplex, m.CancelP, m.Misbehave, m.SmallNet, m.CloserP = 4, 3, 0.6, 0.4, 0.4, 0.6, 0.5
		m.WriteFaultP = 0.12
	case "C10":
		m.MaxRPCs, m.ErrP, m.UnknownP, m.Misbehave, m.SmallNet, m.ServeCancelP, m.Duplex = 4, 0.7, 0.1, 0.25, 0.3, 0.1, 0.15
	case "C11":
		m.MaxRPCs, m.MetaP, m.CancelP, m.Misbehave, m.ForceSoftC = 6, 0.7, 0.35, 0.3, -1
		m.MaxTasks = 2
	case "C12":
		m.MaxRPCs, m.CloseFaults, m.Duplex, m.StallP, m.ServeP, m.NoInact, m.CloserP, m.SmallNet, m.Misbehave, m.PooledP = 3, 0, 0.4, 0.4, 0.5, true, 0.5, 0.3, 0.3, 0.2
		m.ErrP = 0.25
	case "C15":
		m.MaxRPCs, m.MaxTasks, m.CancelP, m.Misbehave, m.ErrP, m.PooledP, m.OnlyUnaryP, m.Duplex = 5, 3, 0.4, 0.3, 0.2, 1.0, 0.3, 0.2
	case "C13":
		m.MaxRPCs, m.Byz, m.MetaP, m.ErrP = 4, 1.0, 0.4, 0.3
	case "C18":
		m.MaxRPCs, m.MetaP, m.ErrP, m.CancelP, m.Duplex = 4, 0.4, 0.3, 0.2, 0.3
		m.Misbehave = 0.3
	}
	return m
}

// ---- generator ---------------------------------------------------------------

type e1gen struct {
	ch   *Choices
	mode E1Mode
	cfg  E1Config
	st   string // current decision stream: "cfg", "rpc<k>", "faults"
}

func (g *e1gen) pick(n int) int        { return g.ch.Pick(g.st, n) }
func (g *e1gen) chance(p float64) bool { return g.ch.Bool(g.st, p) }
func (g *e1gen) weighted(w ...int) int { return g.ch.Weighted(g.st, w) }

var delayTable = []int{0, 1, 2, 4, 8, 16, 32, 64, 128}

func (g *e1gen) delay() int { return delayTable[g.pick(len(delayTable))] }

func (g *e1gen) drawConfig() E1Config {
	m := g.mode
	var c E1Config
	switch m.ForceSoftC {
	case 0:
	case 1:
		c.SoftC = true
	default:
		c.SoftC = g.chance(0.5)
	}
	c.SoftS = g.chance(0.5)
	c.Split = []int{0, -1, 1, 2, 7, 64, 1000}[g.weighted(4, 1, 1, 1, 2, 2, 2)]
	c.WBuf = []int{0, 1, 16, 100, 65536}[g.weighted(4, 1, 2, 2, 1)]
	if m.ManualOK {
		c.Manual = g.chance(0.2)
	}
	c.StreamMax = []int{0, 64}[g.weighted(3, 1)]
	c.ReaderMax = []int{0, 65536}[g.weighted(3, 1)]
	if !m.NoInact && g.chance(0.1) {
		c.Inactivity = time.Second
	}
	if g.chance(m.SmallNet) {
		c.NetCap = []int{1, 7, 64}[g.pick(3)]
	} else {
		c.NetCap = []int{-1, 4096, 64}[g.weighted(5, 2, 1)]
	}
	c.TCP = g.chance(0.3)
	c.Serve = g.chance(m.ServeP)
	c.LockYields = g.chance(0.5)
	c.EmptyReads = g.chance(0.2)
	c.EmptyHeavy = c.EmptyReads && g.chance(0.35)
	c.Stats = g.chance(0.2)
	return c
}

// size draws a message size that keeps the number of frames and writes small.
func (g *e1gen) size() int {
	c := g.cfg
	split := c.Split
	if split == 0 {
		split = 65536
	}
	cands := []int{13, 0, 1, 5, 12, 40, 100}
	if split > 0 && split < 100000 {
		cands = append(cands, split-1, split, split+1, 3*split+5)
	}
	wb := c.WBuf
	if wb == 0 {
		wb = 4096
	}
	if wb < 100000 {
		cands = append(cands, wb-1, wb+1)
	}
	if g.chance(g.mode.BigP) {
		cands = append(cands, 5000, 70000, 200000)
	}
	s := cands[g.pick(len(cands))]
	if s < 0 {
		s = 0
	}
	// bound frames per message and bytes so runs stay short
	maxFrames := 24
	if split > 0 && s/split > maxFrames {
		s = split * (1 + g.pick(maxFrames))
	}
	if c.ReaderMax > 0 && s > c.ReaderMax-64 {
		s = c.ReaderMax - 64
	}
	// every byte costs about two steps per network-capacity unit
	if c.NetCap > 0 && s > c.NetCap*40 {
		s = c.NetCap * (1 + g.pick(40))
	}
	if wb > 0 && wb < 16 && split > 0 && s/split > 6 {
		s = split * (1 + g.pick(6))
	}
	return s
}

func (g *e1gen) meta(idx int) map[string]string {
	n := g.weighted(1, 3, 2, 1, 1) // 0..4 pairs; 0 = empty map
	m := map[string]string{}
	for i := 0; i < n; i++ {
		var k, v string
		switch g.weighted(4, 1, 1, 1) {
		case 0:
			k = fmt.Sprintf("key%d-%d", idx, i)
		case 1:
			k = "" // empty key
		case 2:
			k = fmt.Sprintf("k\x00\xff\n%d-%d", idx, i)
		case 3:
			k = fmt.Sprintf("%0300d-%d", idx, i)
		}
		switch g.weighted(4, 1, 1, 1) {
		case 0:
			v = fmt.Sprintf("val-of-rpc-%d-%d", idx, i)
		case 1:
			v = ""
		case 2:
			v = fmt.Sprintf("\x80\xfe\x00\r\n rpc%d", idx)
		case 3:
			b := make([]byte, 4096)
			for j := range b {
				b[j] = byte(j*7 + idx)
			}
			v = string(b)
		}
		if g.chance(0.25) {
			// lengths around the varint boundaries, for the value alone or for
			// the whole entry (2 + len(k) + 2 + len(v) with one-byte prefixes)
			k = fmt.Sprintf("b%d-%d", idx, i)
			n := []int{126, 127, 128, 129, 16383, 16384}[g.pick(6)]
			if g.cfg.ReaderMax > 0 && n > 1000 {
				n = 129 // (the whole invoke-metadata packet has to stay below a configured reader maximum)
			}
			if g.chance(0.5) && n < 1000 {
				n -= 4 + len(k)
			}
			b := make([]byte, n)
			for j := range b {
				b[j] = 'a' + byte((j+idx)%26)
			}
			v = string(b)
		}
		m[k] = v
	}
	return m
}

// sharedMetaTemplate: the content of the long-lived map an application passes to
// AddPairs for every call (style 1).
func sharedMetaTemplate() map[string]string {
	return map[string]string{"shared-auth": "token-of-the-application", "shared-zone": "z1"}
}

func (g *e1gen) errSpec(idx int) ErrSpec {
	var e ErrSpec
	switch g.weighted(4, 1, 1, 1, 1) {
	case 4:
		e.Msg = fmt.Sprintf("100%% of rpc %d done: %%s %%d %%!v(MISSING) %%%%", idx) // literal percent signs
	case 0:
		e.Msg = fmt.Sprintf("handler error of rpc %d", idx)
	case 1:
		e.Msg = ""
	case 2:
		e.Msg = fmt.Sprintf("bin\x00\r\n\xff\xfe rpc %d", idx)
	case 3:
		n := 3000 + g.pick(3)*30000
		if g.cfg.NetCap > 0 && g.cfg.NetCap < 100 {
			n = 300 // every byte costs steps on a tiny network
		}
		b := make([]byte, n)
		for j := range b {
			b[j] = 'a' + byte((j+idx)%26)
		}
		e.Msg = string(b) + fmt.Sprintf(" rpc %d", idx)
	}
	e.Code = []uint64{0, 1, 12, 1 << 63, ^uint64(0), 77}[g.pick(6)]
	e.Depth = g.pick(6)
	e.Style = g.pick(4)
	if e.Style == 3 {
		e.Msg = fmt.Sprintf("backend of rpc %d lost: EOF", idx)
	}
	if g.chance(0.05) {
		// an error whose Unwrap chain is a cycle: no code can be found in it
		return ErrSpec{Msg: fmt.Sprintf("cyclic handler error of rpc %d", idx), Code: 0, Style: 6}
	}
	if g.chance(0.12) {
		// the application's shared, coded sentinel error: returned as it is (style
		// 4) or re-coded for this call with WithCode (style 5)
		e = ErrSpec{Msg: sentinelText, Code: 5, Style: 4}
		if g.chance(0.5) {
			e.Code, e.Style = 9, 5
		}
	}
	return e
}

const sentinelText = "shared sentinel of the rpc handlers"

// conversation builds turn based client/handler scripts.
func (g *e1gen) conversation(r *RPCSpec) {
	// the handler of a server-stream rpc receives the request through the mux
	turns := g.weighted(1, 3, 3, 2, 1, 1) // number of turns 0..5
	dir := g.pick(2)                     // 0: client speaks first
	if r.Shape == ShSStream {
		dir = 1
	}
	if r.Shape == ShCStream {
		dir = 0
	}
	cseq, hseq := 0, 0
	for t := 0; t < turns; t++ {
		n := 1 + g.weighted(3, 2, 1)
		for i := 0; i < n; i++ {
			sz := g.size()
			bad := sz > 0 && g.chance(g.mode.BadMsgP)
			if dir == 0 {
				r.COps = append(r.COps, Op{Kind: OpSend, Size: sz, Seq: cseq, Bad: bad})
				if g.cfg.Manual && g.chance(0.3) {
					r.COps = append(r.COps, Op{Kind: OpFlush})
				}
				r.HOps = append(r.HOps, Op{Kind: OpRecv})
				cseq++
			} else {
				r.HOps = append(r.HOps, Op{Kind: OpSend, Size: sz, Seq: hseq, Bad: bad})
				if g.cfg.Manual && g.chance(0.3) {
					r.HOps = append(r.HOps, Op{Kind: OpFlush})
				}
				r.COps = append(r.COps, Op{Kind: OpRecv})
				hseq++
			}
		}
		switch r.Shape {
		case ShBidi:
			dir = 1 - dir
		}
	}
	// a long run of small messages behind a large one, in one direction (the
	// connection reader gives its packet buffer back after such a run)
	if g.chance(0.08) && r.Shape != ShUnary {
		r.COps, r.HOps = nil, nil
		cseq, hseq = 0, 0
		big := []int{600, 1500, 4200, 5000}[g.pick(4)]
		if g.cfg.NetCap > 0 && g.cfg.NetCap < 100 {
			big = 300
		}
		n := 9 + g.pick(6)
		small := func() int { return []int{0, 1, 12, 13}[g.pick(4)] }
		if r.Shape == ShSStream || (r.Shape == ShBidi && g.chance(0.5)) {
			r.HOps = append(r.HOps, Op{Kind: OpSend, Size: big, Seq: hseq})
			r.COps = append(r.COps, Op{Kind: OpRecv})
			hseq++
			for i := 0; i < n; i++ {
				r.HOps = append(r.HOps, Op{Kind: OpSend, Size: small(), Seq: hseq})
				r.COps = append(r.COps, Op{Kind: OpRecv})
				hseq++
			}
		} else {
			r.COps = append(r.COps, Op{Kind: OpSend, Size: big, Seq: cseq})
			r.HOps = append(r.HOps, Op{Kind: OpRecv})
			cseq++
			for i := 0; i < n; i++ {
				r.COps = append(r.COps, Op{Kind: OpSend, Size: small(), Seq: cseq})
				r.HOps = append(r.HOps, Op{Kind: OpRecv})
				cseq++
			}
		}
	}
	// graceful ending: client half-closes and reads until EOF, handler
	// reads until EOF and returns.
	r.COps = append(r.COps, Op{Kind: OpCloseSend}, Op{Kind: OpRecvAll})
	r.HOps = append(r.HOps, Op{Kind: OpRecvAll})
	r.Clean = true
}

// duplex builds multi-sender full duplex scripts: sender tasks plus a receiver
// that drains until end of stream on both sides.
func (g *e1gen) duplex(r *RPCSpec) {
	r.Duplex = true
	mk := func(nsend int, canSend bool) (main []Op, aux [][]Op) {
		if !canSend {
			nsend = 0
		}
		for s := 0; s < nsend; s++ {
			var ops []Op
			n := 1 + g.weighted(2, 3, 2, 1)
			seq := 0
			for i := 0; i < n; i++ {
				sz := g.size()
				if sz < 12 {
					sz = 12 + sz // duplex messages always carry the self-describing header
				}
				if g.chance(g.mode.BadMsgP) {
					// refused by the sender's own encoder: the send fails, nothing is sent,
					// the sequence the receiver sees has no hole
					ops = append(ops, Op{Kind: OpSend, Size: sz, Sender: s, Seq: 900 + i, Unenc: true})
					continue
				}
				ops = append(ops, Op{Kind: OpSend, Size: sz, Sender: s, Seq: seq})
				seq++
			}
			if g.cfg.Manual {
				ops = append(ops, Op{Kind: OpFlush})
			}
			aux = append(aux, ops)
		}
		return nil, aux
	}
	cs := 1 + g.weighted(3, 2, 1)
	hs := 1 + g.weighted(3, 2, 1)
	_, r.CAux = mk(cs, r.Shape != ShSStream)
	_, r.HAux = mk(hs, r.Shape != ShCStream)
	// receivers run as aux tasks too (sometimes two per side); main joins
	// senders, half-closes, joins all
	nsC, nsH := len(r.CAux), len(r.HAux)
	r.CAux = append(r.CAux, []Op{{Kind: OpRecvAll}})
	r.HAux = append(r.HAux, []Op{{Kind: OpRecvAll}})
	if g.chance(0.25) {
		r.CAux = append(r.CAux, []Op{{Kind: OpRecvAll}})
		r.TwoRecvC = true
	}
	if g.chance(0.25) {
		r.HAux = append(r.HAux, []Op{{Kind: OpRecvAll}})
		r.TwoRecvH = true
	}
	r.COps = []Op{{Kind: OpJoin, Size: nsC}, {Kind: OpCloseSend}, {Kind: OpJoin, Size: len(r.CAux)}}
	r.HOps = []Op{{Kind: OpJoin, Size: nsH}, {Kind: OpJoin, Size: len(r.HAux)}}
	r.Clean = true
	// a concurrent closer on either side (joined last, so it never delays the script)
	if g.chance(g.mode.CloserP) {
		k := []int{OpClose, OpCloseSend, OpClose}[g.pick(3)]
		closer := []Op{{Kind: OpDelay, Size: g.delay()}, {Kind: k}}
		if g.chance(0.7) {
			r.CAux = append(r.CAux, closer)
		} else {
			r.HAux = append(r.HAux, closer)
		}
		r.Clean = false
		r.Misbehaved = true
	}
}

func (g *e1gen) misbehave(r *RPCSpec) {
	r.Misbehaved = true
	r.Clean = false
	// truncate either script at a random point and pick a rude ending
	if len(r.COps) > 0 && g.chance(0.6) {
		r.COps = r.COps[:g.pick(len(r.COps)+1)]
		r.CEnd = g.weighted(3, 2, 2)
	}
	if len(r.HOps) > 0 && g.chance(0.6) {
		r.HOps = r.HOps[:g.pick(len(r.HOps)+1)]
	}
	// a side that does not drain: some of its receives are skipped, the rest of
	// its script (sends, return) goes on
	skip := func(ops []Op, p float64) []Op {
		var out []Op
		for _, o := range ops {
			if o.Kind == OpRecv && g.chance(p) {
				continue
			}
			out = append(out, o)
		}
		return out
	}
	if !r.Duplex && g.chance(0.3) {
		r.HOps = skip(r.HOps, 0.5)
	}
	if !r.Duplex && g.chance(0.15) {
		r.COps = skip(r.COps, 0.5)
	}
	// the handler half-closes itself ("SendAndClose") somewhere in its script and
	// goes on / returns; whatever the client still sends arrives afterwards
	if !r.Duplex && g.chance(0.2) {
		at := g.pick(len(r.HOps) + 1)
		ops := append([]Op{}, r.HOps[:at]...)
		ops = append(ops, Op{Kind: OpCloseSend})
		for _, o := range r.HOps[at:] {
			if o.Kind != OpSend && o.Kind != OpFlush {
				ops = append(ops, o)
			}
		}
		r.HOps = ops
	}
	// a slow handler (matters with an inactivity timeout on the server)
	if !r.Duplex && g.cfg.Inactivity > 0 && g.chance(0.5) {
		at := g.pick(len(r.HOps) + 1)
		ops := append([]Op{}, r.HOps[:at]...)
		ops = append(ops, Op{Kind: OpSleep, Size: 5 + g.pick(20)})
		r.HOps = append(ops, r.HOps[at:]...)
	}
	if g.chance(0.15) {
		r.HOps = append(r.HOps, Op{Kind: OpWaitCtx})
	}
	// manual flushing: a client whose last act before Close is an explicit flush
	// (no later operation of the stream notices what happened during the flush)
	if g.cfg.Manual && !r.Duplex && g.chance(0.3) {
		for i, o := range r.COps {
			if o.Kind == OpFlush {
				r.COps = r.COps[:i+1]
				r.CEnd = EndClose
				if g.chance(0.5) {
					r.HOps = nil
				}
				r.flushClose = true
				break
			}
		}
	}
	if g.chance(0.15) {
		r.COps = append(r.COps, Op{Kind: OpClose}, Op{Kind: OpSend, Size: 13, Sender: 9, Seq: 0}, Op{Kind: OpRecv})
	}
}

func (g *e1gen) rpc(idx int) *RPCSpec {
	m := g.mode
	r := &RPCSpec{Idx: idx}
	if g.chance(m.OnlyUnaryP) {
		r.Shape = ShUnary
	} else {
		r.Shape = g.weighted(2, 2, 2, 3)
	}
	if g.chance(m.MetaP) {
		r.HasMeta = true
		r.Meta = g.meta(idx)
		switch r.MetaStyle = g.weighted(5, 3, 1, 2, 1); r.MetaStyle {
		case 4:
			r.Meta["ovr"] = fmt.Sprintf("fresh value of rpc %d", idx)
		case 3:
			// per task, each call derives its context from the previous call's
			// context and adds at most two pairs (drpcmetadata.Add writes into the
			// map the context already carries); what the handler must see is the
			// union so far, filled in by genE1 once the task assignment is known
			r.MetaExtras = map[string]string{}
			n := 0
			for k, v := range r.Meta {
				if n < 2 && len(k) < 64 && len(v) < 64 {
					r.MetaExtras[k] = v
					n++
				}
			}
		case 1:
			// the shared map plus at most two per-call pairs
			r.MetaExtras = map[string]string{}
			n := 0
			for k, v := range r.Meta {
				if n < 2 && len(k) < 64 && len(v) < 64 {
					r.MetaExtras[k] = v
					n++
				}
			}
			r.Meta = map[string]string{}
			for k, v := range sharedMetaTemplate() {
				r.Meta[k] = v
			}
			for k, v := range r.MetaExtras {
				r.Meta[k] = v
			}
		}
	}
	r.ReqSize = g.size()
	if r.ReqSize < 12 || g.chance(0.5) {
		r.ReqSize = 12 + g.pick(3) // similar sizes make the connection reuse its marshal buffer
	}
	r.Unknown = g.chance(m.UnknownP)
	switch r.Shape {
	case ShUnary:
		r.HRet = RetResp
		r.Resp = g.size()
		if r.Resp < 12 {
			r.Resp = 12
		}
		if g.chance(0.1) {
			r.HRet = RetNil // nil response
		}
		if g.chance(0.5) {
			r.CEnd = EndCloseCancel // the ubiquitous `defer cancel()` idiom
		}
		if g.chance(m.BadMsgP) {
			r.BadMarshal = true
			r.Clean = false
		}
	default:
		if g.chance(m.Duplex) {
			g.duplex(r)
		} else {
			g.conversation(r)
		}
		if g.chance(m.Misbehave) {
			g.misbehave(r)
		}
		r.HRet = RetNil
		if r.CEnd == EndClose && g.chance(0.5) {
			r.CEnd = EndCloseCancel
		}
	}
	if g.chance(m.ErrP) {
		r.HRet = RetErr
		r.HErr = g.errSpec(idx)
		r.Clean = false
		r.RespToo = r.Shape == ShUnary && g.chance(0.25)
	}
	if r.flushClose && r.HRet != RetErr && g.chance(0.6) {
		r.HRet = RetErr
		r.HErr = g.errSpec(idx)
	}
	if g.chance(m.CancelP) {
		r.Cancel = true
		r.Clean = false
	}
	for _, op := range r.HOps {
		if op.Kind == OpWaitCtx {
			r.Cancel = true // a handler waiting for its context needs somebody to end the rpc
		}
	}
	if r.Cancel {
		r.CancelDelay = g.delay()
		r.Deadline = g.chance(0.25)
	}
	if r.Unknown {
		r.Clean = false
	}
	return r
}

func genE1(ch *Choices, mode E1Mode) *E1Prog {
	g := &e1gen{ch: ch, mode: mode, st: "cfg"}
	g.cfg = g.drawConfig()
	p := &E1Prog{Cfg: g.cfg, Probe: mode.Probe}
	n := 1 + g.pick(mode.MaxRPCs)
	p.NTasks = 1 + g.pick(mode.MaxTasks)
	// "unary storm": several goroutines issuing same-sized unary calls on one
	// soft-cancel connection with early cancels (contention on everything a
	// connection shares between calls)
	storm := mode.StormP > 0 && g.chance(mode.StormP)
	if storm {
		p.Cfg.SoftC = true
		g.cfg.SoftC = true
		n = 4 + g.pick(3)
		p.NTasks = 2 + g.pick(2)
	}
	for i := 0; i < n; i++ {
		g.st = fmt.Sprintf("rpc%d", i)
		// default (0) = slot absent, so that the minimiser can drop an rpc
		// without disturbing the others
		if !g.chance(0.92) {
			continue
		}
		r := g.rpc(i)
		if storm {
			r2 := &RPCSpec{Idx: i, Shape: ShUnary, ReqSize: 13, Resp: 13, HRet: RetResp}
			if g.chance(0.5) {
				r2.Cancel = true
				r2.CancelDelay = []int{0, 1, 2, 3, 4, 6, 8, 12}[g.pick(8)]
			}
			r = r2
		}
		r.Task = 0
		if p.NTasks > 1 {
			r.Task = g.pick(p.NTasks)
		}
		p.RPCs = append(p.RPCs, r)
	}
	// cumulative metadata of derived contexts (style 3), per task in program order
	cum := map[int]map[string]string{}
	for _, r := range p.RPCs {
		if r.HasMeta && r.MetaStyle == 3 {
			if cum[r.Task] == nil {
				cum[r.Task] = map[string]string{}
			}
			for k, v := range r.MetaExtras {
				cum[r.Task][k] = v
			}
			r.Meta = map[string]string{}
			for k, v := range cum[r.Task] {
				r.Meta[k] = v
			}
		}
	}
	g.st = "faults"
	if g.chance(mode.StallP) {
		k := []string{"stall-c2s", "stall-s2c"}[g.pick(2)]
		p.FaultTask = append(p.FaultTask, FaultTask{Kind: k, Delay: g.delay()})
	}
	if g.chance(mode.ServeCancelP) {
		p.FaultTask = append(p.FaultTask, FaultTask{Kind: "cancel-serve", Delay: g.delay()})
	}
	if g.chance(mode.WriteFaultP) {
		ep := []string{"client", "server"}[g.pick(2)]
		p.IOFaults = map[string][]*Fault{ep: {{Op: 1 + g.pick(40), Kind: "write-err", Partial: g.pick(9)}}}
	}
	if g.chance(mode.CloseFaults) {
		kinds := []string{"close-client-conn", "close-server-tr", "close-client-tr", "cancel-serve", "close-client-conn-twice"}
		p.FaultTask = append(p.FaultTask, FaultTask{Kind: kinds[g.pick(len(kinds))], Delay: g.delay()})
	}
	return p
}
