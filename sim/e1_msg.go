package sim

import (
	"context"
	"encoding/binary"
	"errors"
	"fmt"
	"io"
	"strings"

	"github.com/zeebo/errs"

	"storj.io/drpc"
	"storj.io/drpc/drpcerr"
	"storj.io/drpc/verifsim"
)

// Msg is the message type of the simulated services: raw bytes.
type Msg struct {
	B    []byte
	Seen int // how many times something was unmarshalled into this object
}

var errUndecodable = errors.New("sim: undecodable message")

// rawEnc is a trivial drpc.Encoding. A payload starting with 0xEE is refused by
// Unmarshal (dispatcher failure scenarios).
type rawEnc struct{}

var errUnencodable = errors.New("sim: unencodable message")

func (rawEnc) Marshal(m drpc.Message) ([]byte, error) {
	verifsim.Yield(verifsim.ClassApp, "enc.Marshal")
	b := m.(*Msg).B
	if len(b) > 0 && b[0] == 0xEF {
		return nil, errUnencodable
	}
	return b, nil
}

func (rawEnc) Unmarshal(b []byte, m drpc.Message) error {
	if len(b) > 0 && b[0] == 0xEE {
		return errUndecodable
	}
	// user code may be slow: the director may run anybody else before the
	// bytes are copied out of the buffer lent by the stream
	verifsim.Yield(verifsim.ClassApp, "enc.Unmarshal")
	mm := m.(*Msg)
	mm.B = append(mm.B[:0:0], b...)
	mm.Seen++
	return nil
}

const (
	dirC2S    = 1
	dirS2C    = 2
	seqReq    = 0xFFFF
	seqResp   = 0xFFFE
	msgHdrLen = 12
)

// msgBytes builds the self-describing message (rpc, dir, sender, seq, size).
func msgBytes(rpc, dir, sender, seq, size int) []byte {
	b := make([]byte, size)
	for i := range b {
		b[i] = byte(i*7 + rpc*13 + seq*31 + dir*101 + sender*17 + 3)
	}
	if size >= msgHdrLen {
		b[0] = 0xD7
		b[1] = byte(dir)
		b[2] = byte(rpc)
		b[3] = byte(sender)
		binary.BigEndian.PutUint16(b[4:], uint16(seq))
		binary.BigEndian.PutUint32(b[6:], uint32(size))
		b[10] = byte(rpc) ^ 0x5a
		b[11] = byte(seq) ^ 0xa5
	}
	return b
}

// msgDescribe decodes the header of a received message for diagnostics.
func msgDescribe(b []byte) string {
	if len(b) >= msgHdrLen && b[0] == 0xD7 {
		return fmt.Sprintf("msg{rpc=%d dir=%d sender=%d seq=%d size=%d len=%d}", b[2], b[1], b[3],
			binary.BigEndian.Uint16(b[4:]), binary.BigEndian.Uint32(b[6:]), len(b))
	}
	return fmt.Sprintf("msg{len=%d raw=%x}", len(b), b[:min(len(b), 12)])
}

// msgHeader returns the header fields when present.
func msgHeader(b []byte) (rpc, dir, sender, seq, size int, ok bool) {
	if len(b) >= msgHdrLen && b[0] == 0xD7 {
		return int(b[2]), int(b[1]), int(b[3]), int(binary.BigEndian.Uint16(b[4:])), int(binary.BigEndian.Uint32(b[6:])), true
	}
	return
}

type wrapU struct{ e error }

func (w wrapU) Error() string { return w.e.Error() }
func (w wrapU) Unwrap() error { return w.e }

type wrapC struct{ e error }

func (w wrapC) Error() string { return w.e.Error() }
func (w wrapC) Cause() error  { return w.e }

// buildErr constructs the handler error described by e.
// curSentinel is the application's shared coded error of the current run (runs
// are sequential within a worker; reset by newSentinel at the start of each).
var curSentinel error

func newSentinel() { curSentinel = drpcerr.WithCode(errors.New(sentinelText), 5) }

// cycErr is one half of a two-element Unwrap cycle (handler results are data the
// library has to survive, C13): whoever walks the chain without a bound never
// ends; the chain panics after 5000 steps so that such a walk is reported.
type cycErr struct {
	msg   string
	next  *cycErr
	steps *int
}

func (c *cycErr) Error() string { return c.msg }
func (c *cycErr) Unwrap() error {
	*c.steps++
	if *c.steps > 5000 {
		panic("the Unwrap chain of a handler error was followed more than 5000 times")
	}
	return c.next
}

func buildErr(e ErrSpec) error {
	switch e.Style {
	case 4:
		return curSentinel
	case 5:
		return drpcerr.WithCode(curSentinel, 9)
	case 6:
		n := 0
		a, b := &cycErr{msg: e.Msg, steps: &n}, &cycErr{msg: e.Msg, steps: &n}
		a.next, b.next = b, a
		return a
	}
	var err error = errors.New(e.Msg)
	if e.Style == 3 {
		// a handler passing on an end-of-stream it met somewhere ("...: EOF")
		err = fmt.Errorf("%s%w", strings.TrimSuffix(e.Msg, "EOF"), io.EOF)
	}
	err = drpcerr.WithCode(err, e.Code)
	for i := 0; i < e.Depth; i++ {
		switch e.Style {
		case 0:
			err = wrapU{err}
		case 1:
			err = wrapC{err}
		case 3:
			err = wrapU{err}
		default:
			err = errs.Wrap(err)
		}
	}
	return err
}

// ---- simulated service registered with the real drpcmux -----------------------

type rpcSrv struct {
	x *e1
	k int
}

func (s *rpcSrv) Unary(ctx context.Context, in *Msg) (*Msg, error) { return s.x.handleUnary(s.k, ctx, in) }
func (s *rpcSrv) SStream(in *Msg, st drpc.Stream) error           { return s.x.handleStream(s.k, in, st) }
func (s *rpcSrv) Stream(st drpc.Stream) error                      { return s.x.handleStream(s.k, nil, st) }

type rpcDesc struct{ k int }

func (d rpcDesc) NumMethods() int { return 4 }

func (d rpcDesc) Method(n int) (string, drpc.Encoding, drpc.Receiver, interface{}, bool) {
	name := fmt.Sprintf("/sim/%s/%d", shapeNames[n], d.k)
	switch n {
	case ShUnary:
		return name, rawEnc{}, func(srv interface{}, ctx context.Context, in1, in2 interface{}) (drpc.Message, error) {
			return srv.(*rpcSrv).Unary(ctx, in1.(*Msg))
		}, (*rpcSrv).Unary, true
	case ShSStream:
		return name, rawEnc{}, func(srv interface{}, ctx context.Context, in1, in2 interface{}) (drpc.Message, error) {
			return nil, srv.(*rpcSrv).SStream(in1.(*Msg), in2.(drpc.Stream))
		}, (*rpcSrv).SStream, true
	case ShCStream, ShBidi:
		return name, rawEnc{}, func(srv interface{}, ctx context.Context, in1, in2 interface{}) (drpc.Message, error) {
			return nil, srv.(*rpcSrv).Stream(in1.(drpc.Stream))
		}, (*rpcSrv).Stream, true
	}
	return "", nil, nil, nil, false
}
