package sim

import (
	"fmt"
	"sort"
	"strings"
)

// Violation is one oracle failure.
type Violation struct {
	Prop   string `json:"property"`
	Oracle string `json:"oracle"`
	Sig    string `json:"signature"` // schedule independent description of what failed
	Detail string `json:"detail"`
	Step   int    `json:"step"`
}

// RunResult is what one simulated run reports.
type RunResult struct {
	Index       uint64              `json:"index"`
	Seed        uint64              `json:"seed"`
	Engine      string              `json:"engine"`
	Mode        string              `json:"mode"`
	Hash        string              `json:"hash"`
	Steps       int                 `json:"steps"`
	SimTimeMS   int64               `json:"sim_time_ms"`
	Nontrivial  bool                `json:"nontrivial"`
	Inconcl     bool                `json:"inconclusive_budget"`
	Discarded   string              `json:"discarded,omitempty"`
	Probes      map[string]int      `json:"probes,omitempty"`
	Faults      map[string]int      `json:"faults,omitempty"`
	Viol        []Violation         `json:"violations,omitempty"`
	Other       []Violation         `json:"other_oracles,omitempty"` // oracles not owned by the property under check
	States      int                 `json:"states"`
	StateSet    []uint64            `json:"-"`
	StateHashes []uint64            `json:"state_hashes,omitempty"`
	Plan        string              `json:"plan,omitempty"`
	Preempt     int                 `json:"preemptions"`
	Tapes       map[string][]uint32 `json:"tapes,omitempty"`
	Desc        any                 `json:"desc,omitempty"` // program / config description (samples, replays)
	Lines       []string            `json:"lines,omitempty"`
	Decisions   []Decision          `json:"decisions,omitempty"`
	Census      []string            `json:"census,omitempty"`
	Infra       string              `json:"infra,omitempty"` // infrastructure problem (never a violation)
	Draws       int                 `json:"draws"`
}

func (r *RunResult) probe(name string) {
	if r.Probes == nil {
		r.Probes = map[string]int{}
	}
	r.Probes[name]++
}

func (r *RunResult) probeN(name string, n int) {
	if n == 0 {
		return
	}
	if r.Probes == nil {
		r.Probes = map[string]int{}
	}
	r.Probes[name] += n
}

func (r *RunResult) fault(name string, n int) {
	if n == 0 {
		return
	}
	if r.Faults == nil {
		r.Faults = map[string]int{}
	}
	r.Faults[name] += n
}

// RunSpec tells an engine what to run.
type RunSpec struct {
	Engine  string            `json:"engine"`
	Prop    string            `json:"prop"`
	Mode    string            `json:"mode"`
	Seed    uint64            `json:"seed"`
	Index   uint64            `json:"index"`
	Tier    string            `json:"tier"`
	Budget  int               `json:"budget"`
	Verbose bool              `json:"verbose"`
	Tapes   map[string][]uint32 `json:"tapes,omitempty"` // replay
	Replay  bool              `json:"replay"`
	Params  map[string]string `json:"params,omitempty"`
}

func errStr(err error) string {
	if err == nil {
		return "<nil>"
	}
	s := err.Error()
	if len(s) > 120 {
		s = s[:120] + "..."
	}
	return s
}

func sortedKeys[V any](m map[string]V) []string {
	ks := make([]string, 0, len(m))
	for k := range m {
		ks = append(ks, k)
	}
	sort.Strings(ks)
	return ks
}

func fmtMap(m map[string]string) string {
	if m == nil {
		return "<none>"
	}
	var sb strings.Builder
	sb.WriteByte('{')
	for i, k := range sortedKeys(m) {
		if i > 0 {
			sb.WriteByte(',')
		}
		fmt.Fprintf(&sb, "%q:%q", trunc(k, 16), trunc(m[k], 16))
	}
	sb.WriteByte('}')
	return sb.String()
}

func trunc(s string, n int) string {
	if len(s) > n {
		return s[:n] + fmt.Sprintf("..(%d)", len(s))
	}
	return s
}
