// Copyright (C) 2019 Storj Labs, Inc.
// See LICENSE for copying information.

// Package drpcwire provides low level helpers for the drpc wire protocol.
package drpcwire

// Vendored verbatim from storj.io/drpc v0.0.17 (module cache) for the wire
// compatibility check C18. The only edit: the monkit telemetry import and the two
// `defer mon.Task()` lines in transport.go were removed (telemetry only).
