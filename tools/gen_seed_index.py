#!/usr/bin/env python3
"""Regenerates /verif/seeded/INDEX.md from the meta.json files."""
import json, glob, os
rows = []
for d in sorted(glob.glob("/verif/seeded/[STUVWXY]-*")):
    m = json.load(open(os.path.join(d, 'meta.json')))
    det = [p for p, r in m['checks_run'].items() if r == 'DETECTED']
    miss = [p for p, r in m['checks_run'].items() if r != 'DETECTED']
    rows.append('| %s | %s | %s | %s | %s | %s |' % (m['id'], m['property'], m.get('change', '').replace('|', '/'),
        ', '.join(det) or '-', ', '.join(miss) or '-', 'yes' if m.get('confirmed_by_me') else m.get('confirm_note', 'no')))
with open('/verif/seeded/INDEX.md', 'w') as f:
    f.write('# Seeded changes (written by independent sub-agents from the property text only)\n\n')
    f.write('S- = first/second wave, T- = round 2 (asked for subtler, multi-condition changes). Every change compiles and passes the\n'
            'pinned suite; "confirmed" = tools/confirm_seed.sh saw the demo fail with and pass without the change.\n'
            'Regenerate with tools/seed_regress.py --refresh.\n\n')
    f.write('| id | target | change | detected by (quick tier) | also run, not detected | confirmed |\n|---|---|---|---|---|---|\n')
    f.write('\n'.join(rows) + '\n')
print('wrote INDEX.md with', len(rows), 'seeds')
