#!/usr/bin/env python3
"""Re-runs, for every kept seeded change, the quick checks that are recorded as detecting it
(meta.json: checks_run == DETECTED) and reports regressions. Usage: seed_regress.py [ids...]"""
import json, glob, subprocess, sys, os
want = set(sys.argv[1:])
bad = []
for d in sorted(glob.glob('/verif/seeded/S-*')):
    m = json.load(open(os.path.join(d, 'meta.json')))
    if want and m['id'] not in want: continue
    for p, r in m['checks_run'].items():
        if r != 'DETECTED': continue
        o = subprocess.run(['/verif/tools/seedtest.sh', os.path.join(d, 'patch.diff'), p], capture_output=True, text=True).stdout
        ok = 'VIOLATION property=' in o
        print(m['id'], p, 'detected' if ok else 'MISSED', flush=True)
        if not ok: bad.append((m['id'], p, o[-300:]))
print('REGRESSIONS', bad)
