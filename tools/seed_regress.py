#!/usr/bin/env python3
"""Re-runs, for every kept seeded change, the quick checks recorded in its meta.json and reports
regressions (a check recorded as DETECTED that now misses). With --refresh the recorded results
(checks_run / check_outputs) are rewritten from this run and seeded/INDEX.md is regenerated.
Usage: seed_regress.py [--refresh] [--all-checks] [ids...]
  --all-checks  also re-run the checks recorded as missed (default: only DETECTED ones)"""
import json, glob, subprocess, sys, os
args = sys.argv[1:]
refresh = '--refresh' in args
allc = '--all-checks' in args or refresh
want = set(a for a in args if not a.startswith('--'))
bad = []
for d in sorted(glob.glob("/verif/seeded/[STUVWXY]-*")):
    mp = os.path.join(d, 'meta.json')
    m = json.load(open(mp))
    if want and m['id'] not in want: continue
    for p, r in list(m['checks_run'].items()):
        if r != 'DETECTED' and not allc: continue
        o = subprocess.run(['/verif/tools/seedtest.sh', os.path.join(d, 'patch.diff'), p], capture_output=True, text=True).stdout
        ok = 'VIOLATION property=' in o
        if 'BUILD-ERROR' in o or 'PATCH DOES NOT APPLY' in o:
            print(m['id'], p, 'INFRA', o[-200:], flush=True); bad.append((m['id'], p, 'infra')); continue
        print(m['id'], p, 'detected' if ok else ('MISSED' if r == 'DETECTED' else 'missed (as recorded)'), flush=True)
        if not ok and r == 'DETECTED': bad.append((m['id'], p, o[-300:]))
        if refresh:
            m['checks_run'][p] = 'DETECTED' if ok else 'missed'
            m.setdefault('check_outputs', {})[p] = o[:600]
    if refresh: json.dump(m, open(mp, 'w'), indent=1)
print('REGRESSIONS', bad)
if refresh:
    subprocess.run(['python3', '/verif/tools/gen_seed_index.py'])
