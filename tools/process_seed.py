#!/usr/bin/env python3
"""process_seed.py <sa-dir> <n> <seed-id> <prop> [extra props...]
Confirms seeded change n of a sub-agent directory and runs the quick checks of the given properties
against it. Stores the seed under /verif/seeded/<seed-id>/ with meta.json."""
import sys, re, subprocess, os, json, shutil
sa, n, sid, props = sys.argv[1], sys.argv[2], sys.argv[3], sys.argv[4:]
out = os.path.join(sa, '_out')
diff = os.path.join(out, 'change%s.diff' % n)
demo = None
for cand in ['demo%s_test.go' % n, 'demo%s.go' % n]:
    if os.path.exists(os.path.join(out, cand)): demo = os.path.join(out, cand)
head = open(demo).readline()
m = re.search(r'([a-z/]*drpc[a-z]*|internal/[a-z]+)/', head)
pkg = m.group(1).split('/')[-1] if m else 'drpcconn'
if m and m.group(1).startswith('internal'): pkg = m.group(1)
if 'internal/integration' in head: pkg = 'internal/integration'
t = re.search(r"-run\s+'?\"?([A-Za-z0-9_|^$]+)", head)
test = t.group(1) if t else 'TestDemo%s' % n
print('pkg', pkg, 'test', test)
r = subprocess.run(['/verif/tools/confirm_seed.sh', diff, demo, pkg, test], capture_output=True, text=True)
print(r.stdout[-900:])
confirmed = 'VERDICT confirmed' in r.stdout
results = {}
for p in props:
    rr = subprocess.run(['/verif/tools/seedtest.sh', diff, p], capture_output=True, text=True)
    o = rr.stdout
    print(o[:700])
    results[p] = {'detected': 'VIOLATION property=' in o, 'output': o[:600]}
d = '/verif/seeded/%s' % sid
os.makedirs(d, exist_ok=True)
shutil.copy(diff, os.path.join(d, 'patch.diff'))
shutil.copy(demo, os.path.join(d, os.path.basename(demo)))
meta = {'id': sid, 'property': props[0], 'source': 'independent sub-agent given only the property text and a scratch worktree',
        'confirmed_by_me': confirmed, 'confirm_output': r.stdout[-600:], 'demo': os.path.basename(demo), 'demo_pkg': pkg, 'demo_test': test,
        'checks_run': {p: ('DETECTED' if v['detected'] else 'missed') for p, v in results.items()},
        'check_outputs': {p: v['output'] for p, v in results.items()}}
json.dump(meta, open(os.path.join(d, 'meta.json'), 'w'), indent=1)
print('==>', sid, 'confirmed' if confirmed else 'NOT CONFIRMED', meta['checks_run'])
