#!/bin/bash
# usage: confirm_seed.sh <diff> <demo_test.go> <pkgdir (e.g. drpcserver)> <TestName>
# Confirms in a scratch worktree: patch applies, builds, root+integration suites pass with it,
# the demo FAILS with it and PASSES without it. Prints a one-line verdict.
set -u
DIFF=$(readlink -f "$1"); DEMO=$(readlink -f "$2"); PKG=$3; TEST=$4
WT=${CWT:-/tmp/wt-confirm}
export GOFLAGS=-mod=mod GOPROXY=off; unset GOSUMDB GOTOOLCHAIN
if [ ! -d $WT ]; then git -C /repo worktree add -q --detach $WT HEAD; fi
git -C $WT checkout -q --detach $(git -C /repo rev-parse HEAD); git -C $WT checkout -q -- .; git -C $WT clean -fdq
git -C $WT apply "$DIFF" 2>/dev/null || git -C $WT apply --3way "$DIFF" || { echo "VERDICT patch-does-not-apply"; exit 1; }
git -C $WT reset -q 2>/dev/null
(cd $WT && go build ./... ) || { echo "VERDICT does-not-build"; exit 1; }
S1=$(cd $WT && go test -vet=off -count=1 ./... 2>&1 | grep -c "^FAIL\|^---  *FAIL\|^--- FAIL")
if [ "$S1" != 0 ]; then S1=$(cd $WT && go test -vet=off -count=1 ./... 2>&1 | grep -c "^FAIL\|^---  *FAIL\|^--- FAIL"); fi
S2=$(cd $WT/internal/integration && env -u GOFLAGS GOPROXY=off go test -mod=mod -vet=off -count=1 ./... 2>&1 | grep "^--- FAIL" | grep -vc TestCancelRepeatedPooled)
cp "$DEMO" $WT/$PKG/zz_demo_seed_test.go
rundemo() {
  if [ "$PKG" = internal/integration ]; then
    (cd $WT/internal/integration && env -u GOFLAGS GOPROXY=off timeout 300 go test -mod=mod -vet=off -count=1 -run "$TEST" . 2>&1 | tail -3 | tr '\n' ' ')
  else
    (cd $WT && timeout 300 go test -vet=off -count=1 -run "$TEST" ./$PKG/ 2>&1 | tail -3 | tr '\n' ' ')
  fi
}
D1=$(rundemo)
git -C $WT checkout -q -- .
D0=$(rundemo)
rm -f $WT/$PKG/zz_demo_seed_test.go; git -C $WT clean -fdq
echo "suite-fails-root=$S1 suite-fails-integration=$S2"
echo "demo WITH change:    ${D1:0:200}"
echo "demo WITHOUT change: ${D0:0:200}"
if [ "$S1" = 0 ] && [ "$S2" = 0 ] && echo "$D1" | grep -q FAIL && echo "$D0" | grep -q "^ok\| ok "; then echo "VERDICT confirmed"; else echo "VERDICT NOT-confirmed"; fi
