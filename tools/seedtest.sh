#!/bin/bash
# usage: seedtest.sh <patch.diff> <prop> [<prop>...]
# Applies the patch to a scratch worktree of /repo HEAD and runs the quick checks against it.
set -u
PATCH=$(readlink -f "$1"); shift
WT=${WT:-/tmp/wt-eval}
if [ ! -d $WT ]; then git -C /repo worktree add -q --detach $WT HEAD; fi
git -C $WT reset -q --hard 2>/dev/null
git -C $WT checkout -q --detach $(git -C /repo rev-parse HEAD) 2>/dev/null
git -C $WT reset -q --hard 2>/dev/null; git -C $WT clean -fdq
git -C $WT apply "$PATCH" 2>/dev/null || git -C $WT apply --3way "$PATCH" 2>/dev/null || { git -C $WT reset -q --hard; echo "PATCH DOES NOT APPLY"; exit 3; }
git -C $WT reset -q 2>/dev/null
for p in "$@"; do
  VERIF_EVIDENCE_DIR=/tmp/seed-evidence VERIF_REPLAY_DIR=/tmp/seed-replays VERIF_REPO=$WT VERIF_DIR=/verif /verif/check $p ${TIER:-quick} 2>&1 | grep -v "^built\|KNOWN-FINDING" | cut -c1-260 | head -${LINES_MAX:-6}
done
git -C $WT reset -q --hard 2>/dev/null; git -C $WT clean -fdq
