#!/usr/bin/env python3
"""Generates /verif/MANIFEST.json from the table below (kept in one place so that
the manifest is always valid)."""
import json, os

BASELINE_OFF = "for m in $(cat /w/out/gomods.txt); do MF=$(cd /repo/$m && . /w/out/goenv.sh && gomodflag); (cd /repo/$m && go test $MF -json -vet=off -count=1 -timeout 25m ./...); done"

E1_NOTE = ("Trusted base: testing/synctest quiescence and fake clock; the 20-line select poll-order hook patched into a private copy of "
           "runtime/select.go; simsync (director-mediated Mutex/Cond/Once/WaitGroup) being a faithful, more permissive model of sync; simnet honouring "
           "the net.Conn contract; the reference frame parser and per-property oracles in /verif/sim. Interleavings are sequentially consistent at the "
           "granularity of instrumented yield points (locks incl. release, channel operations, select cases, spawns, transport calls, application calls, "
           "user Marshal/Unmarshal). Schedules, programs, configurations and fault plans are sampled, not enumerated.")

CLAIMED = {
    # id: (engine, category, text, design_ref, technique, note)
    "C01": ("rpc-sim", "exploration",
            "Seeded deterministic simulation of the real drpcconn<->drpcserver stack over a simulated byte-stream network: every message returned by MsgRecv is "
            "compared with ground truth (per-stream prefix, exactly-once, byte integrity), every successful auto-flush send is checked to be completely on the "
            "wire at return, and clean half-closed streams must deliver everything then io.EOF. Sampling over sizes, split/buffer/flush/cancel configurations, "
            "chunking, back-pressure and lock-granularity interleavings of concurrent senders/receivers; not a proof.",
            "DESIGN.md §8 C01", "deterministic simulation with seeded schedules and transport chunking/back-pressure; omniscient delivery oracle", E1_NOTE),
}

NOT_YET = "check under construction in this round; will be claimed once its oracle has been validated on the unchanged tree"

NA = {
    "C08": "pure function of its input (frame codec round-trip / parser totality): no schedule, clock, fault or interleaving for a simulator to control; see DESIGN.md §9",
    "C14": "pure request->response mapping executed by one goroutine; the only I/O seam is consumed by the standard library, not repository code; see DESIGN.md §9",
    "C17": "quantifies over programs emitted by a code generator and is decided by compiling them; nothing runs concurrently or over time; see DESIGN.md §9",
}

ALL = ["C%02d" % i for i in range(1, 20)]

def main():
    here = os.path.dirname(os.path.dirname(os.path.abspath(__file__)))
    checks = []
    for pid in ALL:
        if pid not in CLAIMED:
            continue
        engine, cat, text, ref, tech, note = CLAIMED[pid]
        checks.append({
            "property_id": pid,
            "quick_cmd": "./check %s quick" % pid,
            "thorough_cmd": "./check %s thorough" % pid,
            "evidence_file": "/verif/evidence/%s.json" % pid,
            "replay_cmd_template": "./check replay {path}",
            "engine": engine,
            "level_claimed": {"category": cat, "text": text, "design_ref": ref},
            "level_note": note,
            "technique": tech,
        })
    na = []
    for pid in ALL:
        if pid in CLAIMED:
            continue
        na.append({"property_id": pid, "reason": NA.get(pid, NOT_YET)})
    engines = [
        {"name": "rpc-sim", "path": "sim/e1_*.go", "serves_properties": [p for p in ALL if p in CLAIMED and CLAIMED[p][0] == "rpc-sim"],
         "kind_free_text": "real drpcconn/drpcmanager/drpcstream/drpcwire/drpcserver/drpcmux under a seeded director (testing/synctest bubble), simulated network, scripted clients and handlers"},
    ]
    for name, path, text in [
        ("stream-model", "sim/e2_*.go", "one real drpcstream.Stream against an executable reference state machine"),
        ("reader-chunk", "sim/e3_*.go", "real drpcwire.Reader over a scripted io.Reader vs reference reassembler"),
        ("pool-sim", "sim/e4_*.go", "real drpcpool.Pool with simulated connections and fake-clock expiry"),
        ("mux-sim", "sim/e5_*.go", "real drpcmigrate.ListenMux/HeaderConn over a simulated listener"),
        ("signal-sim", "sim/e6_*.go", "real drpcsignal with statement-level yields; porcupine linearizability check"),
    ]:
        sp = [p for p in ALL if p in CLAIMED and CLAIMED[p][0] == name]
        if sp:
            engines.append({"name": name, "path": path, "serves_properties": sp, "kind_free_text": text})
    man = {
        "version": 1,
        "setup_cmd": "./setup.sh",
        "hooks": {
            "guard": "none in /repo: instrumentation is generated at check time from /repo's working tree and applied with `go build -overlay` (virtual package storj.io/drpc/verifsim, patched private copy of runtime/select.go); nothing is committed to /repo",
            "enable": "./check <id> <tier> instruments /repo (or $VERIF_REPO) into a temporary directory and builds /verif/sim with go1.26.8 test -c -overlay",
            "baseline_off_cmd": BASELINE_OFF,
            "source_commits": [],
            "add_only": True,
        },
        "engines": engines,
        "checks": checks,
        "not_applicable": na,
        "notes": "Exit codes: 0 property held on everything explored; 1 VIOLATION (minimised replay file written and re-executed in a fresh process first); 2 infrastructure problem (build failure, determinism mismatch, replay mismatch, mis-tuned workload) - never a violation. VERIF_SEED selects the base seed; VERIF_REPO (default /repo) selects the tree.",
    }
    with open(os.path.join(here, "MANIFEST.json"), "w") as f:
        json.dump(man, f, indent=1)
        f.write("\n")

if __name__ == "__main__":
    main()
