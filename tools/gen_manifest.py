#!/usr/bin/env python3
"""Generates /verif/MANIFEST.json from the table below (kept in one place so that
the manifest is always valid)."""
import json, os

BASELINE_OFF = "for m in $(cat /w/out/gomods.txt); do MF=$(cd /repo/$m && . /w/out/goenv.sh && gomodflag); (cd /repo/$m && go test $MF -json -vet=off -count=1 -timeout 25m ./...); done"

E1_NOTE = ("Trusted base: testing/synctest quiescence and fake clock; the 20-line select poll-order hook patched into a private copy of "
           "runtime/select.go; simsync (director-mediated Mutex/Cond/Once/WaitGroup) being a faithful, more permissive model of sync; simnet honouring "
           "the net.Conn contract; the reference frame parser and per-property oracles in /verif/sim. Interleavings are sequentially consistent at the "
           "granularity of instrumented yield points (locks incl. release, channel operations, select cases, spawns, transport calls, application calls, "
           "user Marshal/Unmarshal). Schedules, programs, configurations and fault plans are sampled, not enumerated.")

def e1(text, ref, tech, cat="exploration"):
    return ("rpc-sim", cat, text, ref, tech, E1_NOTE)

CLAIMED = {
    # id: (engine, category, text, design_ref, technique, note)
    "C01": e1("Seeded deterministic simulation of the real drpcconn<->drpcserver stack over a simulated byte-stream network: every message returned by MsgRecv is "
            "compared with ground truth (per-stream prefix, exactly-once, byte integrity), every successful auto-flush send is checked to be completely on the "
            "wire at return, clean half-closed streams must deliver everything then io.EOF, and at quiescence no receive is blocked while a complete message of its stream has "
            "already been read off the transport by its own reader. Sampling over sizes, split/buffer/flush/cancel configurations, "
            "chunking, back-pressure and lock-granularity interleavings of concurrent senders/receivers/closers; not a proof.",
            "DESIGN.md §8 C01", "deterministic simulation: seeded schedules + transport chunking/back-pressure; omniscient delivery oracle"),
    "C02": e1("Same simulated stack with 1-3 client goroutines issuing up to 6 rpcs on one connection while earlier rpcs are cancelled, closed, failed or abandoned at "
            "scheduler-chosen instants and their late packets are delayed into later rpcs. Oracles: every message/response/error/metadata observed by rpc k "
            "belongs to rpc k; a clean rpc on a connection that stayed alive completes fully (no foreign EOF/cancel); a handler runs at most once per rpc and receives a "
            "fresh request object; the server never drops a connection nobody closed (how D15 was found); no call stays blocked for ever on a healthy connection "
            "(how D16 was found by the thorough tier). Found and repaired D9, D15, D16.",
            "DESIGN.md §8 C02", "deterministic simulation: seeded schedules, delayed delivery, soft/hard cancel; attribution oracle on tagged messages"),
    "C04": e1("Cancellation fired by a separate task at a scheduler-chosen instant while 1-4 operations of the rpc are in flight (incl. sends parked in a stalled or "
            "back-pressured transport, closers waiting behind them). At global quiescence (exact: nothing is runnable, no timer pending) no client call of the "
            "cancelled rpc may still be in flight; calls blocked at the instant of cancel must report the context's own error (a quarter of the contexts end as an expired deadline); later calls fail (incl. a fresh MsgRecv and "
            "MsgSend issued by the harness at quiescence on every cancelled, terminated client stream); the connection is closed or the probe rpc works; the peer handler is released once the cancel/disconnect has been consumed. 1-2 client tasks, all rpc shapes. Two genuine defects are listed as "
            "known findings; D17b and D18 were found here by the thorough tier and repaired.",
            "DESIGN.md §8 C04", "deterministic simulation with exact blocked-forever census at quiescence; stall/back-pressure faults; both cancel modes"),
    "C05": e1("For every base program the fault-free twin run is executed, its transport calls are numbered per endpoint, and the k-th call of each endpoint is failed "
            "for every k in five ways (read error, read error attached to data, write error after a partial write, peer close, local close; fail-stop endpoint; errors are plain, "
            "ECONNRESET- or timeout-typed by position). "
            "Oracles: nothing stays inside a call (incl. a reader spinning on the failed transport), both sides report closed, the library closes each transport exactly once, "
            "later rpcs fail, everything delivered is a correct prefix of its own stream, no panic.",
            "DESIGN.md §8 C05", "deterministic simulation with exhaustive enumeration of the fault position over sampled programs/schedules", "fault_enumeration"),
    "C06": e1("Histories of 1-4 ill-behaved rpcs (handlers/clients stopping early, errors, soft cancel at any instant incl. before the invoke is written, healed stalls) "
            "are driven to quiescence; if every rpc has ended on both sides and the connection does not report closed, a probe rpc (issued twice) must reach its handler and "
            "return its response; with one client task an rpc must never be unable to START while all its predecessors have ended. Found and repaired D2 and D3.",
            "DESIGN.md §8 C06", "deterministic simulation; probe rpc after global quiescence; exact hang census"),
    "C07": e1("A passive monitor parses every buffer handed to Transport.Write with an independent reference frame parser under 2-4 tasks hammering one connection "
            "(multi-frame sends, flushes, closers, cancellers, next-rpc starters, writes parked by back-pressure): ids never decrease, one kind per id, no frame after "
            "the final frame of an id, no trailing partial frame on a healthy connection, never two Writes or two Reads in flight. Found and repaired D8.",
            "DESIGN.md §8 C07", "deterministic simulation; runtime wire invariant checked by an independent reference parser"),
    "C10": e1("All four rpc shapes through the real drpcmux with handler errors of arbitrary text (empty, binary, 90 KiB), codes (0,1,2^63,2^64-1) attached at wrapping "
            "depth 0-5 via Unwrap/Cause/errs.Wrap, plus unknown-rpc failures; the client's failing call must carry exactly that text and code after receiving the "
            "messages sent before it (also for errors that wrap io.EOF); the error packet on the server's wire carries the handler's text; successful handlers never yield an "
            "error; the probe rpc works afterwards and no client call stays blocked for ever. Found and repaired D10 and D16.",
            "DESIGN.md §8 C10", "deterministic simulation; error text/code compared with ground truth under all delivery schedules"),
    "C11": e1("2-6 calls per connection with none/empty/1-4 pairs of metadata (empty, binary, 4 KiB strings, value/entry lengths 126-129 and 16383/16384) attached in three "
            "application styles (AddPairs of a fresh map; AddPairs of a long-lived shared map followed by per-call Add; Add pair by pair) and abandoned at every point incl. "
            "between metadata and invoke: handler k sees exactly call k's map; the application's shared map is never modified; every invoke-metadata packet on the wire is the canonical protobuf encoding of map<string,string>=1 of some call "
            "(independent reference codec). The pure round-trip-for-all-maps / decode-arbitrary-bytes clause is exercised only through generated maps and the "
            "hostile payloads of C13 (stated partial scope).",
            "DESIGN.md §8 C11, §9", "deterministic simulation; per-call attribution + wire-format oracle with reference protobuf codec"),
    "C12": e1("For every base program the close-free twin is run and a close/cancel is injected at an exact director step s for every 3rd (thorough: every) s: Conn.Close, "
            "two concurrent Conn.Close, cancel of Serve's/ServeOne's context, transport closed underneath, listener failure. Oracles at quiescence: Close returned, "
            "each transport closed exactly once by the library, nothing stays inside a call, later rpcs fail, stream contexts done, Serve returns with no goroutine of "
            "its connections still blocked, and after teardown every library goroutine has exited (leak census).",
            "DESIGN.md §8 C12", "deterministic simulation with enumeration of the close position over sampled programs/schedules; goroutine leak census", "fault_enumeration"),
    "C13": e1("A byzantine man-in-the-middle rewrites bytes in flight inside live sessions: bit flips, garbage, well-formed hostile frames (any kind, control bit, stream "
            "ids 0/current±1/2^64-1, huge message ids), over-long varints, frames announcing up to 2^61 bytes followed by 400 KB floods, hostile error/metadata "
            "payloads, damage of genuine invoke-metadata packets, and one never-finished packet of 6x the reader maximum. Oracles: no task panics; the reader never offers the "
            "transport a buffer beyond 4x maximum + 64 KiB; the flooded side ends its connection; hostile bytes leave no goroutine behind after teardown; a catalogue of malformed metadata encodings is injected as invoke-metadata "
            "packets; handler errors may have cyclic Unwrap chains (an unbounded walk is reported as a panic). The drpchttp entry "
            "points are pure and NOT decided; data races whose only effect is a runtime crash are invisible to a sequentially consistent simulator (stated partial scope).",
            "DESIGN.md §8 C13, §9", "deterministic simulation with byzantine byte/frame injection; panic and memory-bound oracles"),
    "C18": e1("(a) the released v0.0.17 drpcwire reader (vendored verbatim, telemetry removed) is attached as a second consumer to everything either endpoint emits in "
            "every run and must decode the same packets as the reference parser minus control-bit ones; the released gogo-protobuf metadata decoder must accept "
            "emitted UTF-8 metadata; every emitted packet of a kind v0.0.17 does not know must carry the control bit; (c) a renumbering proxy interleaves unknown control packets "
            "(kinds 8-63, 1-2 frames; also one carrying the id of the NEXT stream right after a well-behaved rpc's half-close) into live streams and delivery, completeness, "
            "error and no-hang oracles must still hold; the released UnmarshalError must obtain the handler's text and code from every emitted error packet; every finished client call must have put on the wire what lets a released server release its stream; (b) every 4th chunk of runs feeds byte streams produced by the vendored v0.0.17 Writer/SplitN (ids up to 2^64-1) to the "
            "current reader under the reader-chunk engine's differential/metamorphic oracles, and packets up to 3 MiB cut by the current SplitData/AppendFrame to the released reader. Full old-endpoint interop is not decided.",
            "DESIGN.md §8 C18, §9", "deterministic simulation; differential check against the released v0.0.17 codec; unknown-control-packet injection"),
}

def other(engine, text, ref, tech, note, cat="exploration"):
    return (engine, cat, text, ref, tech, note)

CLAIMED["C03"] = other("stream-model",
    "One real drpcstream.Stream (over a real drpcwire.Writer and a simulated transport) is driven through sampled histories over the full alphabet of local calls and peer packets. "
    "Sequential histories (1-9 events) are compared event by event with an executable reference state machine written from state.dot/README/the statement: result class of each call, "
    "packets emitted (kind, control bit, payload, error payload layout), terminated/finished/context-done signals, and HandlePacket's connection-fatal verdict. Concurrent histories "
    "(2-3 callers + packet feeder, writes parked in a stalled transport) are checked against order-independent rules (idempotence, no send after termination, finished iff terminated and idle, "
    "no write in flight on a finished stream at ANY step, at most one transport write with message frames may begin on a terminated stream per call, valid frame stream, no second terminal packet, "
    "nothing blocked for ever, context done only once finished, half-closed by both sides implies terminated, no receive waits for the write lock behind a MsgSend of its own stream). 30% of histories use ManualFlush (buffered sends; RawFlush, receives and terminal packets flush; a flush after send-close/termination fails and emits nothing).",
    "DESIGN.md §8 C03", "deterministic simulation + model-based testing against a reference state machine",
    "Trusted: the reference state machine in /verif/sim/e2_stream.go; testing/synctest; simsync; sampled histories (all histories of length <= 3 are reached with high probability in the thorough tier, not enumerated).")
CLAIMED["C09"] = other("reader-chunk",
    "Generated byte strings (valid packet sequences with ids up to 2^64-1, single malformations incl. unfinished packets abandoned by a higher id and ids going down after an unfinished packet, hostile streams incl. padded varints, streams produced by the released v0.0.17 writer) are fed to the real drpcwire.Reader under "
    "5 different partitions into reads (everything at once, byte-wise, small, mixed) with errors attached to data or delivered alone and bursts of empty reads, plus a >=100-empty-reads no-progress probe. "
    "Oracles: (a) differential against an independent reference reassembler, (b) metamorphic: the same bytes give the same packets and error class under every partition, (c) memory: buffer capacity and the "
    "largest slice offered to Read stay below 4x maximum + 64 KiB. Found and repaired D4 and D12. This engine also decides clause (b) of C18 (old writer -> new reader).",
    "DESIGN.md §8 C09", "deterministic simulation of the io.Reader seam (read partitioning and error injection) + differential/metamorphic oracles",
    "Trusted: reference reassembler (/verif/sim/e3_reader.go, refwire.go), overlay accessor VerifBufCap; no concurrency is involved (single goroutine), the simulated seam is the io.Reader.")
CLAIMED["C15"] = other("pool-sim",
    "One real drpcpool.Pool with simulator-owned connections; 2-3 worker tasks Put/Take/re-Put/close/block/unblock and Pool.Close over 1-3 keys with all capacity settings; expiry callbacks are director tasks on the fake clock, so "
    "'expiry fired but not completed' is an ordinary schedulable state. Every step at which nobody holds the pool lock an overlay accessor walks the lists: bounds, count == length, forward == backward, per-key sum == global. "
    "Take results are checked for ownership (cached, not handed out, not pool-closed) and state (not closed / blocked / expiry-fired before Take began); at the end (pool closed, timers drained) every Put connection was handed out or "
    "closed by the pool exactly once. Every 4th chunk of runs uses the pooled family of rpc-sim instead: client scripts call pool.Get(...) whose dial creates real drpcconn connections served by a real drpcserver.Serve "
    "(bounds at every step, no connection with a stream still in progress is in the cache, the application may close its pool connection mid-run and continue with a fresh one, every dialed connection closed after pool close, probe through the pool connection succeeds, double Close does not panic). Found and repaired D5, D11 and D14.",
    "DESIGN.md §8 C15", "deterministic simulation with fake-clock timer callbacks as schedulable tasks; list-invariant and ownership oracles",
    "Trusted: overlay accessor VerifState (reads private list fields; a rename breaks the build, exit 2); fake connections; synctest fake clock; sampled operation sequences and schedules.")
CLAIMED["C16"] = other("mux-sim",
    "Real drpcmigrate.ListenMux (prefix length 1-8, routes registered before/while running) over a simulated base listener; 2-6 dialers with registered / unregistered / too-short prefixes writing in arbitrary splits, some through "
    "HeaderConn with 1-3 concurrent writers, some waiting for a one-byte answer before they close; acceptors per listener (some listeners have none); route Close followed by a second Route of the same prefix, context cancel and base-listener failure at scheduler-chosen instants. Oracles at quiescence: each accepted connection is returned by exactly one Accept "
    "(its route, else default) or closed or still waiting for its prefix; routed bytes = client bytes minus prefix, default bytes unmodified and available as they arrive; a prefix registered again with a fresh listener is honoured; a connection parked at a listener nobody accepts on holds up nothing; header exactly once and first on the wire with correct write counts and, with one writer, followed byte for byte by the caller's own payload; after stop no Accept blocks (also on a route asked for after Run returned), Run returns and all goroutines exit; every connection the base Accept returned is delivered or closed even while stopping.",
    "DESIGN.md §8 C16", "deterministic simulation with seeded schedules over a simulated listener/connection seam; routing and transparency oracles",
    "Trusted: simnet listener/conn honouring the net contracts (closing a listener resets un-accepted connections); deterministic map iteration patch in the private runtime copy; sampled programs and schedules.")
CLAIMED["C19"] = other("signal-sim",
    "drpcsignal is instrumented with a scheduling point before EVERY statement; 2-4 tasks run 1-3 operations each on a fresh Signal (Set with distinct errors incl. nil, Get, Err, IsSet, Signal()+probe, Wait) or a fresh Chan "
    "(Make/Get/Close observers; matched Send/Recv/Full). The recorded invoke/return history (stamped with a global event sequence) is checked with porcupine against a sequential write-once register; step invariants: one channel object for all "
    "callers, closed implies value visible, winning Set returns with the channel closed, no lost wake-up at quiescence, no panic, no task blocked for ever in matched lazy-channel scenarios, "
    "Close of a lazy channel that holds a buffered token closes it.",
    "DESIGN.md §8 C19", "deterministic simulation at statement granularity + porcupine linearizability check",
    "Trusted: porcupine v1.3.0; sequentially consistent interleavings only (no weak-memory reorderings between plain accesses); sampled interleavings (histories are tiny: <= 12 operations).")

NOT_YET = "check under construction in this round; will be claimed once its oracle has been validated on the unchanged tree"

NA = {
    "C08": "pure function of its input (frame codec round-trip / parser totality): no schedule, clock, fault or interleaving for a simulator to control; see DESIGN.md §9",
    "C14": "pure request->response mapping executed by one goroutine; the only I/O seam is consumed by the standard library, not repository code; see DESIGN.md §9",
    "C17": "quantifies over programs emitted by a code generator and is decided by compiling them; nothing runs concurrently or over time; see DESIGN.md §9",
}

ALL = ["C%02d" % i for i in range(1, 20)]

def main():
    here = os.path.dirname(os.path.dirname(os.path.abspath(__file__)))
    checks = []
    for pid in ALL:
        if pid not in CLAIMED:
            continue
        engine, cat, text, ref, tech, note = CLAIMED[pid]
        if cat not in ("exploration", "fault_enumeration"):  # sanity
            raise SystemExit("bad category")
        checks.append({
            "property_id": pid,
            "quick_cmd": "./check %s quick" % pid,
            "thorough_cmd": "./check %s thorough" % pid,
            "evidence_file": "/verif/evidence/%s.json" % pid,
            "replay_cmd_template": "./check replay {path}",
            "engine": engine,
            "level_claimed": {"category": cat, "text": text, "design_ref": ref},
            "level_note": note,
            "technique": tech,
        })
    na = []
    for pid in ALL:
        if pid in CLAIMED:
            continue
        na.append({"property_id": pid, "reason": NA.get(pid, NOT_YET)})
    engines = [
        {"name": "rpc-sim", "path": "sim/e1_*.go", "serves_properties": [p for p in ALL if p in CLAIMED and CLAIMED[p][0] == "rpc-sim"],
         "kind_free_text": "real drpcconn/drpcmanager/drpcstream/drpcwire/drpcserver/drpcmux under a seeded director (testing/synctest bubble), simulated network, scripted clients and handlers"},
    ]
    for name, path, text in [
        ("stream-model", "sim/e2_*.go", "one real drpcstream.Stream against an executable reference state machine"),
        ("reader-chunk", "sim/e3_*.go", "real drpcwire.Reader over a scripted io.Reader vs reference reassembler"),
        ("pool-sim", "sim/e4_*.go", "real drpcpool.Pool with simulated connections and fake-clock expiry"),
        ("mux-sim", "sim/e5_*.go", "real drpcmigrate.ListenMux/HeaderConn over a simulated listener"),
        ("signal-sim", "sim/e6_*.go", "real drpcsignal with statement-level yields; porcupine linearizability check"),
    ]:
        sp = [p for p in ALL if p in CLAIMED and CLAIMED[p][0] == name]
        if sp:
            engines.append({"name": name, "path": path, "serves_properties": sp, "kind_free_text": text})
    man = {
        "version": 1,
        "setup_cmd": "./setup.sh",
        "hooks": {
            "guard": "none in /repo: instrumentation is generated at check time from /repo's working tree and applied with `go build -overlay` (virtual package storj.io/drpc/verifsim, patched private copy of runtime/select.go); nothing is committed to /repo",
            "enable": "./check <id> <tier> instruments /repo (or $VERIF_REPO) into a temporary directory and builds /verif/sim with go1.26.8 test -c -overlay",
            "baseline_off_cmd": BASELINE_OFF,
            "source_commits": [],
            "add_only": True,
        },
        "engines": engines,
        "checks": checks,
        "not_applicable": na,
        "notes": "Exit codes: 0 property held on everything explored; 1 VIOLATION (minimised replay file written and re-executed in a fresh process first); 2 infrastructure problem (build failure, determinism mismatch, replay mismatch, mis-tuned workload) - never a violation. VERIF_SEED selects the base seed; VERIF_REPO (default /repo) selects the tree.",
    }
    with open(os.path.join(here, "MANIFEST.json"), "w") as f:
        json.dump(man, f, indent=1)
        f.write("\n")

if __name__ == "__main__":
    main()
