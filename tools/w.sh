#!/bin/bash
# usage: w.sh <workdir> <engine> <prop> <from> <to> [seed] [extra-json-fields]
W=$1; E=$2; P=$3; F=$4; T=$5; S=${6:-1}; X=${7:-}
export VERIF_WORKER="{\"spec\":{\"engine\":\"$E\",\"prop\":\"$P\",\"seed\":$S},\"from\":$F,\"to\":$T,\"out\":\"$W/out.jsonl\"$X}"
cd $W && timeout 600 ./sim.test -test.run TestSim -test.timeout 20m 2>&1 | tail -15
