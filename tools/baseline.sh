#!/bin/bash
# runs the repository's own suite (BASELINE.json cmd) and prints failing tests
export GOPROXY=off
unset GOFLAGS GOTOOLCHAIN GOSUMDB
out=$(mktemp)
for m in $(cat /w/out/gomods.txt); do MF=$(cd /repo/$m && . /w/out/goenv.sh && gomodflag); (cd /repo/$m && go test $MF -json -vet=off -count=1 -timeout 25m ./...); done > $out 2>&1
python3 - $out <<'PY'
import json,sys,collections
res=collections.Counter(); fails=[]
for l in open(sys.argv[1]):
    try: e=json.loads(l)
    except: continue
    if e.get('Test') and e.get('Action') in('pass','fail','skip'):
        res[e['Action']]+=1
        if e['Action']=='fail': fails.append(e['Package']+'::'+e['Test'])
    if not e.get('Test') and e.get('Action')=='fail': fails.append('PKG '+e['Package'])
print(dict(res)); print('FAILS',fails)
PY
rm -f $out
