import json,sys,collections
viol=collections.Counter(); other=collections.Counter(); n=0; inc=0; infra=0; nt=0; steps=0
probes=collections.Counter(); faults=collections.Counter(); hashes=set()
ex={}
for f in sys.argv[1:]:
    for l in open(f):
        r=json.loads(l); n+=1
        inc+=r.get('inconclusive_budget',False); nt+=r.get('nontrivial',False); steps+=r['steps']
        hashes.add(r['hash'])
        if r.get('infra'): infra+=1; print('INFRA',r['index'],r['infra'][:600])
        for v in r.get('violations',[]): viol[v['oracle']+' | '+v['signature']]+=1; ex.setdefault(v['oracle']+' | '+v['signature'],(r['index'],v['detail'][:300]))
        for v in r.get('other_oracles',[]): other[v['oracle']+' | '+v['signature']]+=1; ex.setdefault(v['oracle']+' | '+v['signature'],(r['index'],v['detail'][:300]))
        for k,v in (r.get('probes') or {}).items(): probes[k]+=v
        for k,v in (r.get('faults') or {}).items(): faults[k]+=v
print('runs',n,'distinct',len(hashes),'nontrivial',nt,'inconclusive',inc,'infra',infra,'avg steps',steps//max(n,1))
print('probes',dict(probes)); print('faults',dict(faults))
print('VIOLATIONS'); 
for k,v in viol.most_common(): print(' ',v,k,'\n      e.g.',ex[k])
print('OTHER');
for k,v in other.most_common(): print(' ',v,k,'\n      e.g.',ex[k])
