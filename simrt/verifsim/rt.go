// Package verifsim is the simulation runtime that instrumented drpc code calls
// into. It exists only in the overlay build made by /verif/runner; it is never
// part of /repo. With no Runtime attached every entry point is a no-op (or the
// plain Go construct), so the instrumented library behaves like the shipped one.
package verifsim

import (
	"time"
	"fmt"
	"runtime/debug"
	"sort"
	"strconv"
	"sync"
	"sync/atomic"
	_ "unsafe" // go:linkname
)

// Yield classes. A yield whose class is not enabled in the attached Runtime is
// a no-op. ClassWake, ClassNet, ClassApp and spawn parking are always enabled:
// they are what serialises execution. ClassLock and ClassStmt only add
// scheduling points.
const (
	ClassWake uint32 = 1 << iota // after a real channel operation / in a select case
	ClassNet                     // simulated transport operations
	ClassApp                     // application level API calls of the harness
	ClassLock                    // before acquiring a simulated lock
	ClassStmt                    // statement level (drpcsignal)
)

//go:linkname runtimeGoid runtime.verifGoid
func runtimeGoid() uint64

//go:linkname runtimeSetSelectHook runtime.verifSetSelectHook
func runtimeSetSelectHook(func(goid uint64, n uint32) uint32)

// Task states.
const (
	StStarting = iota // goroutine created, has not parked yet
	StPending         // timer callback that has not fired (yet)
	StReady           // parked; runs when the director releases it
	StWaiting         // blocked on a simulated primitive; not runnable
	StRunning         // released by the director
	StChan            // released, and since then entered a real channel operation / select
	StExited
)

var stateNames = [...]string{"starting", "pending", "ready", "waiting", "running", "chan", "exited"}

// Task is one goroutine known to the director.
type Task struct {
	rt   *Runtime
	ID   int
	Name string
	wake chan struct{}
	goid uint64

	// guarded by rt.Mu
	State   int
	Label   string // where it is parked / what it waits on
	WaitObj any    // the simulated primitive it waits on, if any
	API     string // set by harness code: the API call in progress
	Daemon  bool   // harness helper tasks: never part of a census
	Panic   any
	Stack   string
	Yields  int

	kids   map[string]int
	selPos int
	mark   string // site of the channel operation / select being executed
}

// Runtime is the per-run simulation state.
type Runtime struct {
	Mu      sync.Mutex
	classes atomic.Uint32
	tasks   []*Task
	byGoid  sync.Map // uint64 -> *Task
	wrapN   map[string]int
	rootN   map[string]int
	deadlines []time.Time // every timer deadline armed through the instrumented time calls

	// SelectChoice decides the poll position of the k-th case of a select
	// executed by task t. It must be deterministic. nil => runtime default.
	SelectChoice func(t *Task, k int, n uint32) uint32

	// LockYield, if non-nil, reports whether a task about to take a lock
	// should yield first (only consulted when ClassLock is enabled).
	Trace func(ev string)

	// OnWrap, if set, is told when a timer callback task is allocated (timer
	// armed) and by which task.
	OnWrap func(timer *Task, by *Task)
}

var cur atomic.Pointer[Runtime]

// Attach installs rt as the process wide runtime.
func Attach(rt *Runtime) {
	cur.Store(rt)
	runtimeSetSelectHook(selectHook)
}

// Detach removes the runtime; instrumented code reverts to plain behaviour.
func Detach() { cur.Store(nil) }

// New returns a runtime with the given yield classes enabled in addition to the
// mandatory ones.
func New(classes uint32) *Runtime {
	rt := &Runtime{wrapN: map[string]int{}, rootN: map[string]int{}}
	rt.classes.Store(classes | ClassWake | ClassNet | ClassApp)
	return rt
}

// Classes returns the enabled class mask.
func (rt *Runtime) Classes() uint32 { return rt.classes.Load() }

func selectHook(goid uint64, n uint32) uint32 {
	rt := cur.Load()
	if rt == nil || rt.SelectChoice == nil {
		return n
	}
	v, ok := rt.byGoid.Load(goid)
	if !ok {
		return n
	}
	t := v.(*Task)
	k := t.selPos
	t.selPos++
	return rt.SelectChoice(t, k, n)
}

// Current returns the attached runtime and the task of the calling goroutine
// (nil if the caller is not a task).
func Current() (*Runtime, *Task) {
	rt := cur.Load()
	if rt == nil {
		return nil, nil
	}
	v, ok := rt.byGoid.Load(runtimeGoid())
	if !ok {
		return rt, nil
	}
	return rt, v.(*Task)
}

// Yield is a scheduling point placed by the instrumenter.
func Yield(class uint32, site string) {
	rt := cur.Load()
	if rt == nil || rt.classes.Load()&class == 0 {
		return
	}
	v, ok := rt.byGoid.Load(runtimeGoid())
	if !ok {
		return
	}
	v.(*Task).Park(site)
}

// Mark records that the calling task is about to execute a real channel
// operation or select at site (it may block there durably).
func Mark(site string) {
	rt := cur.Load()
	if rt == nil {
		return
	}
	v, ok := rt.byGoid.Load(runtimeGoid())
	if !ok {
		return
	}
	t := v.(*Task)
	rt.Mu.Lock()
	t.State = StChan
	t.Label = site
	t.mark = site
	rt.Mu.Unlock()
}

// Park parks the calling task as ready until the director releases it.
func (t *Task) Park(label string) {
	rt := t.rt
	rt.Mu.Lock()
	t.State = StReady
	t.Label = label
	t.WaitObj = nil
	t.Yields++
	rt.Mu.Unlock()
	<-t.wake
	t.resume()
}

// resume restores the "inside a channel operation" description after a park
// that happened while evaluating the operands of a marked operation.
func (t *Task) resume() {
	if t.mark != "" {
		t.rt.Mu.Lock()
		t.State = StChan
		t.Label = t.mark
		t.rt.Mu.Unlock()
	}
}

// BlockOn parks the calling task as waiting on obj (not runnable) until some
// other task calls MakeReady and the director then releases it. The caller
// must hold rt.Mu; it is released before blocking.
func (t *Task) BlockOn(label string, obj any) {
	t.State = StWaiting
	t.Label = label
	t.WaitObj = obj
	t.rt.Mu.Unlock()
	<-t.wake
	t.resume()
}

// MakeReady turns a waiting task into a ready one. Caller holds rt.Mu.
func (t *Task) MakeReady(label string) {
	if t.State == StWaiting {
		t.State = StReady
		t.Label = label
	}
}

// Release lets a ready task run. Only the director calls it, after quiescence.
func (rt *Runtime) Release(t *Task) {
	rt.Mu.Lock()
	if t.State != StReady {
		rt.Mu.Unlock()
		panic("verifsim: release of task that is not ready: " + t.Name + " state=" + stateNames[t.State])
	}
	t.State = StRunning
	rt.Mu.Unlock()
	t.wake <- struct{}{}
}

func (rt *Runtime) newTask(name string, state int) *Task {
	t := &Task{rt: rt, Name: name, wake: make(chan struct{}), State: state, kids: map[string]int{}}
	rt.Mu.Lock()
	t.ID = len(rt.tasks)
	rt.tasks = append(rt.tasks, t)
	rt.Mu.Unlock()
	return t
}

func (t *Task) run(f func()) {
	rt := t.rt
	t.goid = runtimeGoid()
	rt.byGoid.Store(t.goid, t)
	defer func() {
		r := recover()
		rt.Mu.Lock()
		if r != nil {
			t.Panic = r
			t.Stack = string(debug.Stack())
		}
		t.State = StExited
		t.Label = "exited"
		rt.Mu.Unlock()
		rt.byGoid.Delete(t.goid)
	}()
	t.Park("start")
	f()
}

// Spawn starts an application task (called by the director / harness, or by
// another task). The task parks before running f.
func (rt *Runtime) Spawn(name string, f func()) *Task {
	rt.Mu.Lock()
	n := rt.rootN[name]
	rt.rootN[name]++
	rt.Mu.Unlock()
	if n > 0 {
		name = name + "~" + strconv.Itoa(n)
	}
	t := rt.newTask(name, StStarting)
	go t.run(f)
	return t
}

// Go replaces a go statement in instrumented code.
func Go(site string, f func()) {
	rt, parent := Current()
	if rt == nil {
		go f()
		return
	}
	var name string
	if parent != nil {
		rt.Mu.Lock()
		n := parent.kids[site]
		parent.kids[site]++
		rt.Mu.Unlock()
		name = parent.Name + "/" + site + "#" + strconv.Itoa(n)
	} else {
		rt.Mu.Lock()
		n := rt.rootN[site]
		rt.rootN[site]++
		rt.Mu.Unlock()
		name = "root/" + site + "#" + strconv.Itoa(n)
	}
	t := rt.newTask(name, StStarting)
	go t.run(f)
}

// Wrap replaces the callback of time.AfterFunc. The task is allocated when the
// timer is armed (deterministic id and name); it becomes ready when it fires.
func Wrap(site string, f func()) func() {
	rt, by := Current()
	if rt == nil {
		return f
	}
	rt.Mu.Lock()
	n := rt.wrapN[site]
	rt.wrapN[site]++
	rt.Mu.Unlock()
	t := rt.newTask("timer:"+site+"#"+strconv.Itoa(n), StPending)
	if rt.OnWrap != nil {
		rt.OnWrap(t, by)
	}
	return func() { t.run(f) }
}

// Tasks returns a snapshot of all tasks in creation order.
func (rt *Runtime) Tasks() []*Task {
	rt.Mu.Lock()
	defer rt.Mu.Unlock()
	return append([]*Task(nil), rt.tasks...)
}

// Ready returns the ready tasks in creation order.
func (rt *Runtime) Ready(buf []*Task) []*Task {
	rt.Mu.Lock()
	defer rt.Mu.Unlock()
	buf = buf[:0]
	for _, t := range rt.tasks {
		if t.State == StReady {
			buf = append(buf, t)
		}
	}
	return buf
}

// Settled reports whether no task is in the starting state (used as a sanity
// check after quiescence).
func (rt *Runtime) Settled() bool {
	rt.Mu.Lock()
	defer rt.Mu.Unlock()
	for _, t := range rt.tasks {
		if t.State == StStarting {
			return false
		}
	}
	return true
}

// StateName returns a printable state.
func (t *Task) StateName() string { return stateNames[t.State] }

// SetAPI records the API call the task is inside (harness use).
func (t *Task) SetAPI(s string) {
	t.rt.Mu.Lock()
	t.API = s
	t.rt.Mu.Unlock()
}

// Describe returns "name state label api" for logs and censuses.
func (t *Task) Describe() string {
	s := fmt.Sprintf("%s [%s] at %s", t.Name, stateNames[t.State], t.Label)
	if t.API != "" {
		s += " in " + t.API
	}
	if h, ok := t.WaitObj.(interface{ HolderName() string }); ok {
		if hn := h.HolderName(); hn != "" {
			s += " (held by " + hn + ")"
		}
	}
	return s
}

// Census returns descriptions of all tasks that have not exited and are not
// pending timers or daemons, sorted by name.
func (rt *Runtime) Census() []string {
	rt.Mu.Lock()
	defer rt.Mu.Unlock()
	var out []string
	for _, t := range rt.tasks {
		if t.State == StExited || t.State == StPending || t.Daemon {
			continue
		}
		out = append(out, t.Describe())
	}
	sort.Strings(out)
	return out
}

// ---- timers -------------------------------------------------------------------------
// The instrumenter routes time.NewTimer / AfterFunc / After / Sleep through these
// so that the director knows which deadlines may be pending. Stopped timers stay
// recorded until their deadline has passed (harmless: at most one idle clock
// advance each).

func noteDeadline(d time.Duration) {
	rt := cur.Load()
	if rt == nil {
		return
	}
	if d < 0 {
		d = 0
	}
	rt.Mu.Lock()
	rt.deadlines = append(rt.deadlines, time.Now().Add(d))
	rt.Mu.Unlock()
}

// NoteDeadline lets harness code register a timer it armed itself.
func (rt *Runtime) NoteDeadline(d time.Duration) { noteDeadline(d) }

// PendingDeadlines returns the recorded deadlines that are still in the future
// (relative to the bubble clock), earliest first, and forgets the past ones.
func (rt *Runtime) PendingDeadlines() []time.Duration {
	now := time.Now()
	rt.Mu.Lock()
	defer rt.Mu.Unlock()
	keep := rt.deadlines[:0]
	var out []time.Duration
	for _, dl := range rt.deadlines {
		if dl.After(now) {
			keep = append(keep, dl)
			out = append(out, dl.Sub(now))
		}
	}
	rt.deadlines = keep
	sort.Slice(out, func(i, j int) bool { return out[i] < out[j] })
	return out
}

// NewTimer replaces time.NewTimer.
func NewTimer(d time.Duration) *time.Timer {
	noteDeadline(d)
	return time.NewTimer(d)
}

// AfterFunc replaces time.AfterFunc.
func AfterFunc(site string, d time.Duration, f func()) *time.Timer {
	noteDeadline(d)
	return time.AfterFunc(d, Wrap(site, f))
}

// After replaces time.After.
func After(d time.Duration) <-chan time.Time {
	noteDeadline(d)
	return time.After(d)
}

// Sleep replaces time.Sleep.
func Sleep(site string, d time.Duration) {
	noteDeadline(d)
	Mark(site)
	time.Sleep(d)
	Yield(ClassWake, site)
}
