// Package simsync is a drop-in replacement for the subset of package sync the
// drpc library uses. With a verifsim.Runtime attached and the caller being a
// task, every blocking decision is handed to the director: a contended Lock
// parks the caller as "waiting", Unlock makes all waiters ready and the
// director's next pick decides who wins. Without a runtime it is plain sync.
package simsync

import (
	"runtime"
	"strings"
	"sync"

	"storj.io/drpc/verifsim"
)

// Map is sync.Map (non-blocking; iteration order is not relied upon).
type Map = sync.Map

// Pool replaces sync.Pool. The real pool's per-P caches and GC clearing make
// "does Get return a recycled object" depend on the Go scheduler; under the
// simulation it is a deterministic LIFO that always recycles, which is the
// behaviour a correct caller has to tolerate anyway.
type Pool struct {
	New   func() any
	real  sync.Pool
	items []any
}

// Get returns a recycled object if there is one, else New().
func (p *Pool) Get() any {
	rt, _ := verifsim.Current()
	if rt == nil {
		p.real.New = p.New
		return p.real.Get()
	}
	rt.Mu.Lock()
	if n := len(p.items); n > 0 {
		x := p.items[n-1]
		p.items = p.items[:n-1]
		rt.Mu.Unlock()
		return x
	}
	rt.Mu.Unlock()
	if p.New != nil {
		return p.New()
	}
	return nil
}

// Put recycles x.
func (p *Pool) Put(x any) {
	rt, _ := verifsim.Current()
	if rt == nil {
		p.real.Put(x)
		return
	}
	if x == nil {
		return
	}
	rt.Mu.Lock()
	p.items = append(p.items, x)
	rt.Mu.Unlock()
}

// Locker is sync.Locker.
type Locker = sync.Locker

// callerFunc returns the short name of the function skip frames up.
func callerFunc(skip int) string {
	pc, _, _, ok := runtime.Caller(skip)
	if !ok {
		return "?"
	}
	n := runtime.FuncForPC(pc).Name()
	if i := strings.LastIndexByte(n, '.'); i >= 0 {
		n = n[i+1:]
	}
	return n
}

type waitq struct {
	waiters []*verifsim.Task
}

func (q *waitq) wakeAll(label string) {
	for _, w := range q.waiters {
		w.MakeReady(label)
	}
	q.waiters = q.waiters[:0]
}

// Mutex replaces sync.Mutex.
type Mutex struct {
	real  sync.Mutex
	held  bool
	owner *verifsim.Task
	q     waitq
}

// HolderName names the task holding the mutex (census output).
func (m *Mutex) HolderName() string {
	if m.owner != nil {
		return m.owner.Name
	}
	if m.held {
		return "non-task"
	}
	return ""
}

// Held reports whether the simulated mutex is held (oracle use, at quiescence).
func (m *Mutex) Held() bool { return m.held }

// Lock locks m.
func (m *Mutex) Lock() {
	rt, t := verifsim.Current()
	if rt == nil {
		m.real.Lock()
		return
	}
	if t == nil {
		rt.Mu.Lock()
		if m.held {
			rt.Mu.Unlock()
			panic("simsync: non-task goroutine would block on a simulated mutex")
		}
		m.held = true
		rt.Mu.Unlock()
		return
	}
	if rt.Classes()&verifsim.ClassLock != 0 {
		t.Park("lock")
	}
	for {
		rt.Mu.Lock()
		if !m.held {
			m.held = true
			m.owner = t
			rt.Mu.Unlock()
			return
		}
		m.q.waiters = append(m.q.waiters, t)
		t.BlockOn("mutex:"+lockCaller(), m)
	}
}

// lockCaller names the function that is taking the lock (skipping thin wrappers
// such as drpcstream's inspectMutex).
func lockCaller() string {
	for skip := 3; skip < 6; skip++ {
		n := callerFunc(skip)
		if n != "Lock" && n != "TryLock" && n != "RLock" {
			return n
		}
	}
	return "?"
}

// TryLock tries to lock m.
func (m *Mutex) TryLock() bool {
	rt, t := verifsim.Current()
	if rt == nil {
		return m.real.TryLock()
	}
	if t != nil && rt.Classes()&verifsim.ClassLock != 0 {
		t.Park("trylock")
	}
	rt.Mu.Lock()
	defer rt.Mu.Unlock()
	if m.held {
		return false
	}
	m.held = true
	m.owner = t
	return true
}

// Unlock unlocks m.
func (m *Mutex) Unlock() {
	rt, t := verifsim.Current()
	if rt == nil {
		m.real.Unlock()
		return
	}
	rt.Mu.Lock()
	if !m.held {
		rt.Mu.Unlock()
		panic("simsync: unlock of unlocked mutex")
	}
	m.held = false
	m.owner = nil
	m.q.wakeAll("mutex-retry")
	rt.Mu.Unlock()
	// releasing a lock is a point at which another goroutine may overtake
	if t != nil && rt.Classes()&verifsim.ClassLock != 0 {
		t.Park("unlock")
	}
}

// RWMutex replaces sync.RWMutex.
type RWMutex struct {
	real    sync.RWMutex
	writer  bool
	readers int
	q       waitq
}

// HolderName is for census output.
func (m *RWMutex) HolderName() string { return "" }

// Lock takes the write lock.
func (m *RWMutex) Lock() {
	rt, t := verifsim.Current()
	if rt == nil {
		m.real.Lock()
		return
	}
	if t != nil && rt.Classes()&verifsim.ClassLock != 0 {
		t.Park("lock")
	}
	for {
		rt.Mu.Lock()
		if !m.writer && m.readers == 0 {
			m.writer = true
			rt.Mu.Unlock()
			return
		}
		if t == nil {
			rt.Mu.Unlock()
			panic("simsync: non-task goroutine would block on a simulated rwmutex")
		}
		m.q.waiters = append(m.q.waiters, t)
		t.BlockOn("rwmutex", m)
	}
}

// Unlock releases the write lock.
func (m *RWMutex) Unlock() {
	rt, _ := verifsim.Current()
	if rt == nil {
		m.real.Unlock()
		return
	}
	rt.Mu.Lock()
	m.writer = false
	m.q.wakeAll("rwmutex-retry")
	rt.Mu.Unlock()
}

// RLock takes a read lock.
func (m *RWMutex) RLock() {
	rt, t := verifsim.Current()
	if rt == nil {
		m.real.RLock()
		return
	}
	if t != nil && rt.Classes()&verifsim.ClassLock != 0 {
		t.Park("rlock")
	}
	for {
		rt.Mu.Lock()
		if !m.writer {
			m.readers++
			rt.Mu.Unlock()
			return
		}
		if t == nil {
			rt.Mu.Unlock()
			panic("simsync: non-task goroutine would block on a simulated rwmutex")
		}
		m.q.waiters = append(m.q.waiters, t)
		t.BlockOn("rwmutex-r", m)
	}
}

// RUnlock releases a read lock.
func (m *RWMutex) RUnlock() {
	rt, _ := verifsim.Current()
	if rt == nil {
		m.real.RUnlock()
		return
	}
	rt.Mu.Lock()
	m.readers--
	if m.readers == 0 {
		m.q.wakeAll("rwmutex-retry")
	}
	rt.Mu.Unlock()
}

// TryLock tries to take the write lock.
func (m *RWMutex) TryLock() bool {
	rt, _ := verifsim.Current()
	if rt == nil {
		return m.real.TryLock()
	}
	rt.Mu.Lock()
	defer rt.Mu.Unlock()
	if m.writer || m.readers > 0 {
		return false
	}
	m.writer = true
	return true
}

// TryRLock tries to take a read lock.
func (m *RWMutex) TryRLock() bool {
	rt, _ := verifsim.Current()
	if rt == nil {
		return m.real.TryRLock()
	}
	rt.Mu.Lock()
	defer rt.Mu.Unlock()
	if m.writer {
		return false
	}
	m.readers++
	return true
}

// RLocker returns a Locker for the read side.
func (m *RWMutex) RLocker() Locker { return (*rlocker)(m) }

type rlocker RWMutex

func (r *rlocker) Lock()   { (*RWMutex)(r).RLock() }
func (r *rlocker) Unlock() { (*RWMutex)(r).RUnlock() }

// Cond replaces sync.Cond.
type Cond struct {
	L Locker

	real     *sync.Cond
	realOnce sync.Once
	q        waitq
}

// NewCond returns a new Cond with Locker l.
func NewCond(l Locker) *Cond { return &Cond{L: l} }

func (c *Cond) getReal() *sync.Cond {
	c.realOnce.Do(func() { c.real = sync.NewCond(c.L) })
	return c.real
}

// HolderName is for census output.
func (c *Cond) HolderName() string { return "" }

// Wait atomically unlocks c.L and suspends the caller; it re-locks on wake.
func (c *Cond) Wait() {
	rt, t := verifsim.Current()
	if rt == nil {
		c.getReal().Wait()
		return
	}
	if t == nil {
		panic("simsync: non-task goroutine in Cond.Wait")
	}
	rt.Mu.Lock()
	c.q.waiters = append(c.q.waiters, t)
	rt.Mu.Unlock()
	c.L.Unlock()
	rt.Mu.Lock()
	// A broadcast between registration and here already made us "ready"
	// only if we were waiting; registration alone does not wait, so check
	// membership.
	still := false
	for _, w := range c.q.waiters {
		if w == t {
			still = true
			break
		}
	}
	if still {
		t.BlockOn("cond:"+callerFunc(2), c)
	} else {
		rt.Mu.Unlock()
	}
	c.L.Lock()
}

// Signal wakes one waiter (the oldest).
func (c *Cond) Signal() {
	rt, _ := verifsim.Current()
	if rt == nil {
		c.getReal().Signal()
		return
	}
	rt.Mu.Lock()
	if len(c.q.waiters) > 0 {
		w := c.q.waiters[0]
		c.q.waiters = append(c.q.waiters[:0], c.q.waiters[1:]...)
		w.MakeReady("cond-woken")
	}
	rt.Mu.Unlock()
}

// Broadcast wakes all waiters.
func (c *Cond) Broadcast() {
	rt, _ := verifsim.Current()
	if rt == nil {
		c.getReal().Broadcast()
		return
	}
	rt.Mu.Lock()
	c.q.wakeAll("cond-woken")
	rt.Mu.Unlock()
}

// Once replaces sync.Once. Later callers wait until the first call returned.
type Once struct {
	real    sync.Once
	done    bool
	running bool
	q       waitq
}

// HolderName is for census output.
func (o *Once) HolderName() string { return "" }

// Do calls f if and only if Do is being called for the first time.
func (o *Once) Do(f func()) {
	rt, t := verifsim.Current()
	if rt == nil {
		o.real.Do(f)
		return
	}
	for {
		rt.Mu.Lock()
		if o.done {
			rt.Mu.Unlock()
			return
		}
		if !o.running {
			o.running = true
			rt.Mu.Unlock()
			break
		}
		if t == nil {
			rt.Mu.Unlock()
			panic("simsync: non-task goroutine would block in Once.Do")
		}
		o.q.waiters = append(o.q.waiters, t)
		t.BlockOn("once", o)
	}
	defer func() {
		rt.Mu.Lock()
		o.done = true
		o.running = false
		o.q.wakeAll("once-done")
		rt.Mu.Unlock()
	}()
	f()
}

// WaitGroup replaces sync.WaitGroup.
type WaitGroup struct {
	real sync.WaitGroup
	n    int
	q    waitq
}

// HolderName is for census output.
func (wg *WaitGroup) HolderName() string { return "" }

// Add adds delta to the counter.
func (wg *WaitGroup) Add(delta int) {
	rt, _ := verifsim.Current()
	if rt == nil {
		wg.real.Add(delta)
		return
	}
	rt.Mu.Lock()
	wg.n += delta
	if wg.n < 0 {
		rt.Mu.Unlock()
		panic("simsync: negative WaitGroup counter")
	}
	if wg.n == 0 {
		wg.q.wakeAll("wg-zero")
	}
	rt.Mu.Unlock()
}

// Done decrements the counter.
func (wg *WaitGroup) Done() { wg.Add(-1) }

// Go runs f in a new goroutine tracked by the group.
func (wg *WaitGroup) Go(f func()) {
	wg.Add(1)
	verifsim.Go("wg.Go", func() {
		defer wg.Done()
		f()
	})
}

// Wait blocks until the counter is zero.
func (wg *WaitGroup) Wait() {
	rt, t := verifsim.Current()
	if rt == nil {
		wg.real.Wait()
		return
	}
	for {
		rt.Mu.Lock()
		if wg.n == 0 {
			rt.Mu.Unlock()
			return
		}
		if t == nil {
			rt.Mu.Unlock()
			panic("simsync: non-task goroutine would block in WaitGroup.Wait")
		}
		wg.q.waiters = append(wg.q.waiters, t)
		t.BlockOn("waitgroup", wg)
	}
}

// OnceFunc mirrors sync.OnceFunc.
func OnceFunc(f func()) func() {
	var o Once
	return func() { o.Do(f) }
}
