#!/bin/bash
# Builds the runner and warms the Go build cache (patched runtime + harness) offline.
set -eu
cd "$(dirname "$0")"
export GOFLAGS=-mod=mod GOPROXY=off GOSUMDB=off GOTOOLCHAIN=local CGO_ENABLED=0
GO=/opt/veriftools/go1.26.8/bin/go
mkdir -p bin evidence replays
(cd runner && $GO build -o ../bin/runner .)
W=$(mktemp -d)
trap 'rm -rf "$W"' EXIT
bin/runner build "$W" >/dev/null
echo "setup ok"
